import Goyang.Lemmas.PositionsSem
import Goyang.Lemmas.PositionsAst
import Goyang.Lemmas.PositionsTypes
import Goyang.Lemmas.PositionsWho
import Goyang.Lemmas.PositionsTypesWho
import Goyang.Lemmas.Uses
import Goyang.Gen.AstSchema
/-
C16 — reported source positions are the true positions (DESIGN.md 7.16), semantic part:
"Every file:line:column that appears in an error from building or resolving a module is the start
of a statement of that file, namely the unknown substatement itself, the statement that lacks a
mandatory substatement, or the type, uses, range, length or enum statement whose name or value is
bad."

The lexer / parser part (what the position of a statement *is*) is Props/C16.lean.  Here the
positions are the `file`/`line`/`col` fields of the statements handed to the resolver model
(`Goyang.Model.processAll`) and to the AST builder model (`Goyang.Model.Ast.build`).
Specification: Goyang/Spec/Positions.lean (`Names`: entry and type layer classes) and
Goyang/Spec/PositionsWho.lean (`Who`: the classes of the resolver's own stages).

What is proved, for every registry, every option set and the assembled pipeline (`plugFull`), no
hypothesis left:
 * `pipeline_positions_are_statement_starts`: every positioned error is a statement start;
 * `pipeline_positions_name_the_statement` (`Names`): unknown-group ⇒ the `uses`; list attributes ⇒
   that substatement; tristate ⇒ the holder; type / range / length / enum errors ⇒ that statement;
 * `pipeline_positions_who` (`Names` and `Who`), with one named corollary per class:
   `duplicate_key_position` (the PARENT statement, which has a data definition substatement),
   `duplicate_node_position` (the `grouping` of a `uses`, the `augment`, the included (sub)module
   statement), `augment_not_found_position` (an `augment` statement directly below a (sub)module
   statement) and `augment_not_found_left_over` (of an augment that is still pending when the loop
   and all retry rounds are over), `deviate_unknown_kind_position`
   (the `deviation` statement holding the `deviate` of unknown kind), `deviation_error_position` (the
   top statement of the deviating module, holding a `deviation` with a `deviate` of the kind the
   class belongs to); `processFiles_positions_who` from the files.
What remains outside the theorems (checked by the fault injector corr-c16sem and by C07's
theorems only): for `duplicate-key`, WHICH two children collide (the site lemma
`duplicate_key_iff_child_exists` says: exactly when a child of that name exists); for
`augment-not-found`, that the left-over augment named failed in the sweep itself (it is proved to be
one the loop and the retry rounds left pending; that nothing left pending there can be applied later
is the fixpoint argument behind the D67 repair, not proved here); for `duplicate-node` of an augment,
that the augment named is the one whose own children collided (`Goyang.Props.C07.application_errors`,
`loop_error_set` describe the error set of the loop per attempt); for the deviation classes, WHICH of several
`deviation` statements of the module (the model, like Go, reports the module statement).
-/
namespace Goyang.Props.C16Sem
open Goyang.Model Goyang.Spec.Positions Goyang.Lemmas.PositionsSem

/-! ## Resolver: every position is a statement start -/

/-- The assumption on the plugged layers, spelled out: every positioned error they return, when
asked about `type` statements of loaded modules, is the start of a statement of a loaded module. -/
theorem plugPositionsOK_iff (reg : Registry) (plug : Plug) : PlugPositionsOK reg plug ↔
    ((∀ root scope t, root ∈ reg.mods → Within t root.stmt → t.kw = "type" → (∀ s ∈ scope, Within s root.stmt) →
        ∀ e ∈ (plug.tres.resolve reg root scope t).2, Positioned e → StmtPositions reg e.file e.line e.col) ∧
      (∀ e ∈ plug.identityErrs reg, Positioned e → StmtPositions reg e.file e.line e.col) ∧
      (∀ e ∈ plug.typedefErrs reg, Positioned e → StmtPositions reg e.file e.line e.col)) := by
  constructor
  · intro h
    exact ⟨fun root scope t h1 h2 h3 h4 e he => posOK_of_posAt (h.resolve root scope t h1 h2 h3 h4 e he),
      fun e he => posOK_of_posAt (h.identity e he), fun e he => posOK_of_posAt (h.typedefs e he)⟩
  · rintro ⟨h1, h2, h3⟩
    exact ⟨fun root scope t a b c d e he => posAt_true_of_posOK (h1 root scope t a b c d e he),
      fun e he => posAt_true_of_posOK (h2 e he), fun e he => posAt_true_of_posOK (h3 e he)⟩

/-- A plug that reports no errors (e.g. the placeholder type layer `TypesLite`) satisfies the
assumption, for every class / statement relation. -/
theorem errorfree_plug_ok (K : String → Stmt → Prop) (reg : Registry) (plug : Plug)
    (h1 : ∀ root scope t, (plug.tres.resolve reg root scope t).2 = []) (h2 : plug.identityErrs reg = [])
    (h3 : plug.typedefErrs reg = []) : PlugPositionsAt K reg plug :=
  ⟨fun root scope t _ _ _ _ e he => (by rw [h1] at he; cases he), fun e he => (by rw [h2] at he; cases he),
    fun e he => (by rw [h3] at he; cases he)⟩

/-- Every position that appears in an error returned by `Modules.Process` is the start of a
statement of a loaded module or submodule — provided the plugged layers (type, identity and
typedef resolution) keep the same discipline.  Invariant behind it: an error is only ever built
as `Err.at_ s cls` with `s` a statement of a loaded module (or the `node` of an entry, which is
one), or as `Err.bare cls`. -/
theorem semantic_positions_are_statement_starts (reg : Registry) (opts : Opts) (plug : Plug)
    (hplug : PlugPositionsOK reg plug) :
    ∀ e ∈ (processAll reg opts plug).errors, Positioned e → StmtPositions reg e.file e.line e.col :=
  fun e he => posOK_of_posAt (processAll_errors_ok sites_true hplug opts e he)

/-- The same in executable form: every returned error passes the Boolean check against the list
of all statement starts of the loaded set. -/
theorem semantic_positions_check (reg : Registry) (opts : Opts) (plug : Plug)
    (hplug : PlugPositionsOK reg plug) :
    (processAll reg opts plug).errors.all (posOKb reg) = true := by
  rw [List.all_eq_true]
  intro e he
  exact (posOKb_iff reg e).2 (semantic_positions_are_statement_starts reg opts plug hplug e he)

/-- `allPositions` is the set the specification speaks about. -/
theorem allPositions_spec (reg : Registry) (f : String) (l c : Nat) :
    (f, l, c) ∈ allPositions reg ↔ StmtPositions reg f l c := mem_allPositions_iff reg f l c

/-! ## Resolver: the position is that of the statement the error names -/

/-- The finer claim: a positioned error returned by `Modules.Process` stands at the start of a
statement of a loaded module that its class names (`Names`): the `uses` statement of an unknown
grouping, the `ordered-by` / `max-elements` / `min-elements` statement with the bad value, the
statement holding a bad `config` / `mandatory`, and — as far as the plugged type layer keeps the
discipline (`plugFull` does: `plugFull_keeps_positions`) — the `type`, `range`, `length`, `enum` or
`bit` statement. -/
theorem semantic_positions_name_the_statement (reg : Registry) (opts : Opts) (plug : Plug)
    (hplug : PlugPositionsAt Names reg plug) :
    ∀ e ∈ (processAll reg opts plug).errors, Positioned e → ∃ s, StmtOf reg s ∧ At e s ∧ Names e.cls s :=
  fun e he => processAll_errors_ok sites_names hplug opts e he

/-- Unknown grouping ⇒ the `uses` statement. -/
theorem unknown_grouping_position (reg : Registry) (opts : Opts) (plug : Plug)
    (hplug : PlugPositionsAt Names reg plug) (e : Err) (he : e ∈ (processAll reg opts plug).errors)
    (hp : Positioned e) (hc : e.cls = "unknown-group") : ∃ s, StmtOf reg s ∧ At e s ∧ s.kw = "uses" := by
  obtain ⟨s, h1, h2, h3⟩ := semantic_positions_name_the_statement reg opts plug hplug e he hp
  exact ⟨s, h1, h2, h3.1 hc⟩

/-- Bad `ordered-by`, `max-elements`, `min-elements` ⇒ that substatement. -/
theorem list_attribute_position (reg : Registry) (opts : Opts) (plug : Plug)
    (hplug : PlugPositionsAt Names reg plug) (e : Err) (he : e ∈ (processAll reg opts plug).errors)
    (hp : Positioned e) :
    (e.cls = "bad-ordered-by" → ∃ s, StmtOf reg s ∧ At e s ∧ s.kw = "ordered-by") ∧
    (e.cls = "bad-max-elements" → ∃ s, StmtOf reg s ∧ At e s ∧ s.kw = "max-elements") ∧
    (e.cls = "bad-min-elements" → ∃ s, StmtOf reg s ∧ At e s ∧ s.kw = "min-elements") := by
  obtain ⟨s, h1, h2, h3⟩ := semantic_positions_name_the_statement reg opts plug hplug e he hp
  exact ⟨fun hc => ⟨s, h1, h2, h3.2.1 hc⟩, fun hc => ⟨s, h1, h2, h3.2.2.1 hc⟩, fun hc => ⟨s, h1, h2, h3.2.2.2.1 hc⟩⟩

/-- Bad `config` / `mandatory` value ⇒ the statement that holds it (the node being converted). -/
theorem tristate_position (reg : Registry) (opts : Opts) (plug : Plug)
    (hplug : PlugPositionsAt Names reg plug) (e : Err) (he : e ∈ (processAll reg opts plug).errors)
    (hp : Positioned e) (hc : e.cls = "bad-tristate") :
    ∃ s, StmtOf reg s ∧ At e s ∧ ∃ v ∈ s.subs, (v.kw = "config" ∨ v.kw = "mandatory") ∧ v.arg ≠ "true" ∧ v.arg ≠ "false" := by
  obtain ⟨s, h1, h2, h3⟩ := semantic_positions_name_the_statement reg opts plug hplug e he hp
  exact ⟨s, h1, h2, h3.2.2.2.2.1 hc⟩

/-- Unknown type name or prefix, bad range, bad length ⇒ the `type`, `range`, `length` statement
(this is what the assumption on the plugged type layer says; the theorem carries it through the
entry layer, the augment stage and the deviation stage). -/
theorem type_error_position (reg : Registry) (opts : Opts) (plug : Plug)
    (hplug : PlugPositionsAt Names reg plug) (e : Err) (he : e ∈ (processAll reg opts plug).errors)
    (hp : Positioned e) :
    ((e.cls = "unknown-type" ∨ e.cls = "unknown-prefix") → ∃ s, StmtOf reg s ∧ At e s ∧ s.kw = "type") ∧
    (e.cls = "bad-range" → ∃ s, StmtOf reg s ∧ At e s ∧ s.kw = "range") ∧
    ((e.cls = "bad-length" ∨ e.cls = "negative-length") → ∃ s, StmtOf reg s ∧ At e s ∧ s.kw = "length") := by
  obtain ⟨s, h1, h2, _, _, _, _, _, k6, k7, k8, k9, k10, _⟩ := semantic_positions_name_the_statement reg opts plug hplug e he hp
  refine ⟨?_, fun hc => ⟨s, h1, h2, k8 hc⟩, ?_⟩
  · rintro (hc | hc)
    · exact ⟨s, h1, h2, k6 hc⟩
    · exact ⟨s, h1, h2, k7 hc⟩
  · rintro (hc | hc)
    · exact ⟨s, h1, h2, k9 hc⟩
    · exact ⟨s, h1, h2, k10 hc⟩

/-- A rejected enum or bit member (duplicate name, duplicate / too small / too large value, no
value left) ⇒ that `enum` / `bit` statement. -/
theorem enum_error_position (reg : Registry) (opts : Opts) (plug : Plug)
    (hplug : PlugPositionsAt Names reg plug) (e : Err) (he : e ∈ (processAll reg opts plug).errors)
    (hp : Positioned e) (hc : e.cls ∈ enumClasses) : ∃ s, StmtOf reg s ∧ At e s ∧ (s.kw = "enum" ∨ s.kw = "bit") := by
  obtain ⟨s, h1, h2, h3⟩ := semantic_positions_name_the_statement reg opts plug hplug e he hp
  exact ⟨s, h1, h2, h3.2.2.2.2.2.2.2.2.2.2 hc⟩

/-! ### the sites themselves (no assumption on the plugged layers) -/

/-- A `uses` statement whose grouping is not found converts to an entry holding exactly one error:
`unknown-group` at the `uses` statement. -/
theorem uses_of_unknown_grouping (env : Env) (fuel : Nat) (root : Mod) (scope : List Stmt) (n : Stmt)
    (visiting : List NodeId) (st : TState) (hkw : n.kw = "uses")
    (hnone : (findGrouping env.reg env.linked (2 * fuel + 16) root scope n.arg []).1 = none) :
    toEntry env (fuel + 1) root scope n visiting st = (errorEntry root n "unknown-group", st) ∧
    (errorEntry root n "unknown-group").allErrors = [Err.at_ n "unknown-group"] := by
  refine ⟨?_, by simp [errorEntry, Entry.allErrors, Entry.allErrorsL]⟩
  rw [Lemmas.Tree.toEntry_succ]
  unfold Lemmas.Tree.toEntryBody
  simp [hkw, hnone]

/-- Duplicate key ⇒ the parent: `Entry.add` records at most one error, positioned at the source
statement of the entry being extended (for the entry `toEntry` builds from a statement `n` that
is `n`: `Lemmas.Tree.e0_data`). -/
theorem duplicate_key_at_parent (e : Entry) (k : String) (v : Entry) :
    (e.add k v).d.errors = e.d.errors ∨ (e.add k v).d.errors = e.d.errors ++ [Err.at_ e.d.node "duplicate-key"] := by
  unfold Entry.add
  split
  · right; cases e; rfl
  · left; cases e; rfl

/-- Bad tristate ⇒ the node. -/
theorem tristate_error_at_node (n : Stmt) (v : Option Stmt) :
    ∀ x ∈ (tristate n v).2, x = Err.at_ n "bad-tristate" := fun x hx => (tristate_errs n v x hx).1

/-- `ordered-by`, `max-elements`, `min-elements` ⇒ that substatement. -/
theorem list_attribute_errors_at_substatement (s : Stmt) : ∀ x ∈ (listAttrOf s).2,
    (∃ o, s.one? "ordered-by" = some o ∧ x = Err.at_ o "bad-ordered-by") ∨
    (∃ v, s.one? "max-elements" = some v ∧ x = Err.at_ v "bad-max-elements") ∨
    (∃ v, s.one? "min-elements" = some v ∧ x = Err.at_ v "bad-min-elements") := listAttrOf_errs s

/-! ## The assembled pipeline: no assumption left

`Goyang.Model.plugFull` plugs the type layer (`Goyang.Model.Types`: `Type.resolve`,
`resolveTypedefs`) and the identity layer (`Goyang.Model.Identity`: `resolveIdentities`) into
`processAll`.  Both keep the discipline, in the finer form. -/

/-- The type, typedef and identity layers of the pipeline only report statements of loaded
modules: unknown type name or prefix ⇒ the `type` statement; bad range / length ⇒ the `range` /
`length` statement; rejected enum or bit member ⇒ that `enum` / `bit` statement; a typedef without
usable type ⇒ the `typedef`; identity errors ⇒ the module statement, the `belongs-to` statement or
the `identity` statement. -/
theorem plugFull_keeps_positions (reg : Registry) : PlugPositionsAt Names reg (plugFull reg) :=
  Goyang.Lemmas.PositionsTypes.plugFull_positions reg

/-- `Modules.Process` with all layers in place: every position is a statement start … -/
theorem pipeline_positions_are_statement_starts (reg : Registry) (opts : Opts) :
    ∀ e ∈ (processAll reg opts (plugFull reg)).errors, Positioned e → StmtPositions reg e.file e.line e.col :=
  fun e he => posOK_of_posAt (processAll_errors_ok sites_names (plugFull_keeps_positions reg) opts e he)

/-- … namely that of the statement the error names. -/
theorem pipeline_positions_name_the_statement (reg : Registry) (opts : Opts) :
    ∀ e ∈ (processAll reg opts (plugFull reg)).errors, Positioned e → ∃ s, StmtOf reg s ∧ At e s ∧ Names e.cls s :=
  semantic_positions_name_the_statement reg opts (plugFull reg) (plugFull_keeps_positions reg)

/-- From the files: every positioned error of the whole pipeline after generic parsing
(`processFiles`: load every file, then `Process`) stands at the start of a statement `s` that occurs
in one of the given files (below a top-level statement `top` of file `f`), and `s` is the statement
the error's class names. -/
theorem processFiles_positions (opts : Opts) (files : List SrcFile) (out : Outcome)
    (h : processFiles opts files = .ok out) :
    ∀ e ∈ out.errors, Positioned e →
      ∃ f ∈ files, ∃ top ∈ f.stmts, ∃ s, Within s top ∧ At e s ∧ Names e.cls s := by
  unfold processFiles at h
  split at h
  · cases h
  · simp only [Except.ok.injEq] at h
    subst h
    intro e he hp
    obtain ⟨s, ⟨m, hm, hw⟩, hat, hn⟩ := pipeline_positions_name_the_statement (loadFiles files) opts e he hp
    obtain ⟨f, hf, htop⟩ := Goyang.Lemmas.PositionsTypes.loadFiles_mods files m hm
    exact ⟨f, hf, m.stmt, htop, s, hw, hat, hn⟩

/-! ## Resolver: WHICH statement the errors of the resolver's own stages name

`Names` leaves the classes of the resolver's own stages unconstrained.  `Who reg`
(Goyang/Spec/PositionsWho.lean) says which statement they name, as the (frozen) model does it —
which is what the Go code does (`Source(e.Node)` / `Source(oe.Node)` / `Source(a.Node)` / the
deviating module):

 * `duplicate-key`: the PARENT statement under which a data definition substatement could not be
   added (not the second of the two colliding children: `Entry.add` reports `Source(e.Node)`);
 * `duplicate-node`: the statement whose children were being merged in — the `grouping` a `uses`
   refers to, the `augment` statement, the `module` / `submodule` statement of an included submodule;
 * `augment-not-found`: the `augment` statement that could not be applied;
 * `deviate-unknown-kind`: the `deviation` statement holding a `deviate` of unknown kind;
 * the positioned classes of the deviation stage (`devStageClasses`): the top statement of the
   deviating (sub)module, which holds a `deviation` statement with a `deviate` of the kind the
   class belongs to.

Proof: a second traversal of the whole pipeline (Lemmas/PositionsWho.lean) with a stronger
invariant (the `node` of every entry IS a statement of a loaded module; results of `toEntry` have
the converted statement, a cached (sub)module or the grouping of a `uses` as their source; pending
augments come from `augment` statements), and the same for the plugged layers
(Lemmas/PositionsTypesWho.lean). -/

/-- A plug that reports no errors satisfies the assumption also for `NamesW reg`. -/
theorem errorfree_plug_ok_who (reg : Registry) (plug : Plug)
    (h1 : ∀ root scope t, (plug.tres.resolve reg root scope t).2 = []) (h2 : plug.identityErrs reg = [])
    (h3 : plug.typedefErrs reg = []) : PlugPositionsAt (NamesW reg) reg plug :=
  errorfree_plug_ok _ reg plug h1 h2 h3

/-- Every positioned error returned by `Modules.Process` stands at the start of a statement `s` of
a loaded module that its class names, for ALL classes of the resolver: `Names` (entry and type
layer) and `Who reg` (duplicate keys and nodes, augment targets, deviations) — provided the plugged
layers keep the discipline (`plugFull` does: `plugFull_keeps_positions_who`). -/
theorem semantic_positions_who (reg : Registry) (opts : Opts) (plug : Plug)
    (hplug : PlugPositionsAt (NamesW reg) reg plug) :
    ∀ e ∈ (processAll reg opts plug).errors, Positioned e →
      ∃ s, StmtOf reg s ∧ At e s ∧ Names e.cls s ∧ Who reg e.cls s := by
  intro e he hp
  obtain ⟨s, h1, h2, h3, h4⟩ := Goyang.Lemmas.PositionsWho.processAll_errors_okW opts hplug e he hp
  exact ⟨s, h1, h2, h3, h4⟩

/-- The type, typedef and identity layers of the pipeline keep the discipline for `NamesW reg` (in
particular they never report one of the classes `Who` speaks about). -/
theorem plugFull_keeps_positions_who (reg : Registry) : PlugPositionsAt (NamesW reg) reg (plugFull reg) :=
  Goyang.Lemmas.PositionsTypesWho.plugFull_positionsW reg

/-- `Modules.Process` with all layers in place, no assumption left: every positioned error stands
at the statement its class names, for all classes. -/
theorem pipeline_positions_who (reg : Registry) (opts : Opts) :
    ∀ e ∈ (processAll reg opts (plugFull reg)).errors, Positioned e →
      ∃ s, StmtOf reg s ∧ At e s ∧ Names e.cls s ∧ Who reg e.cls s :=
  semantic_positions_who reg opts (plugFull reg) (plugFull_keeps_positions_who reg)

/-- Duplicate key ⇒ the PARENT: the error stands at a statement of a loaded module that has a data
definition substatement (`keyKws`: the keywords `ToEntry` adds to the parent's `Dir`) of a kind that
`ToEntry` converts below a statement with the parent's keyword (`fieldOrder`). -/
theorem duplicate_key_position (reg : Registry) (opts : Opts) (e : Err)
    (he : e ∈ (processAll reg opts (plugFull reg)).errors) (hp : Positioned e) (hc : e.cls = "duplicate-key") :
    ∃ s, StmtOf reg s ∧ At e s ∧ ∃ c ∈ s.subs, c.kw ∈ keyKws ∧ c.kw ∈ fieldOrder s.kw := by
  obtain ⟨s, h1, h2, _, h4⟩ := pipeline_positions_who reg opts e he hp
  exact ⟨s, h1, h2, h4.1 hc⟩

/-- Duplicate node ⇒ the statement whose children were merged in: a `grouping` (through `uses`), an
`augment`, or a `module` / `submodule` statement (through `include`; `TopOf`: the top statement of a
loaded (sub)module, for registries holding other statements). -/
theorem duplicate_node_position (reg : Registry) (opts : Opts) (e : Err)
    (he : e ∈ (processAll reg opts (plugFull reg)).errors) (hp : Positioned e) (hc : e.cls = "duplicate-node") :
    ∃ s, StmtOf reg s ∧ At e s ∧ (s.kw = "grouping" ∨ ModAugment reg s ∨ IsModKw s.kw ∨ TopOf reg s) := by
  obtain ⟨s, h1, h2, _, h4⟩ := pipeline_positions_who reg opts e he hp
  exact ⟨s, h1, h2, h4.2.1 hc⟩

/-- Augment target not found ⇒ an `augment` statement standing directly below a `module` /
`submodule` statement of a loaded module. -/
theorem augment_not_found_position (reg : Registry) (opts : Opts) (e : Err)
    (he : e ∈ (processAll reg opts (plugFull reg)).errors) (hp : Positioned e) (hc : e.cls = "augment-not-found") :
    ∃ s, StmtOf reg s ∧ At e s ∧ s.kw = "augment" ∧ ∃ p, StmtOf reg p ∧ IsModKw p.kw ∧ s ∈ p.subs := by
  obtain ⟨s, h1, h2, _, h4⟩ := pipeline_positions_who reg opts e he hp
  exact ⟨s, h1, h2, h4.2.2.1 hc⟩

/-- Augment target not found ⇒ the `augment` statement of an augment that was LEFT OVER: it is the
source statement of an entry that is still in a pending list when the augment loop, FixChoice and
all retry rounds are over (`Goyang.Lemmas.Tree.afterRounds`, the state `processAll` hands to the
reporting sweep) — an augment that none of them could apply.  (Only the reporting sweep builds this
class, for entries of its pending lists, which only shrink.  That an augment is left pending by
the loop exactly when its target does not exist as a node that can take children is
`Goyang.Props.C07.augment_exactly_once_model`.) -/
theorem augment_not_found_left_over (reg : Registry) (opts : Opts) (e : Err)
    (he : e ∈ (processAll reg opts (plugFull reg)).errors) (hp : Positioned e) (hc : e.cls = "augment-not-found") :
    ∃ s, StmtOf reg s ∧ At e s ∧ ModAugment reg s ∧
      ∃ p ∈ (Goyang.Lemmas.Tree.afterRounds reg opts (plugFull reg)).2.pending, ∃ a ∈ p.2, a.d.node = s := by
  obtain ⟨s, h1, h2, _, h4, h5⟩ := Goyang.Lemmas.PositionsWho.processAll_errors_okP opts
    (Goyang.Lemmas.PositionsTypesWho.plugFull_positionsWP _ reg) e he hp
  exact ⟨s, h1, h2, h4.2.2.1 hc, h5 hc⟩

/-- The same for any plugged layers that keep the discipline. -/
theorem semantic_augment_not_found_left_over (reg : Registry) (opts : Opts) (plug : Plug)
    (hplug : PlugPositionsAt (NamesWP (Goyang.Lemmas.PositionsWho.LeftOver reg opts plug) reg) reg plug) (e : Err)
    (he : e ∈ (processAll reg opts plug).errors) (hp : Positioned e) (hc : e.cls = "augment-not-found") :
    ∃ s, StmtOf reg s ∧ At e s ∧ ModAugment reg s ∧
      ∃ p ∈ (Goyang.Lemmas.Tree.afterRounds reg opts plug).2.pending, ∃ a ∈ p.2, a.d.node = s := by
  obtain ⟨s, h1, h2, _, h4, h5⟩ := Goyang.Lemmas.PositionsWho.processAll_errors_okP opts hplug e he hp
  exact ⟨s, h1, h2, h4.2.2.1 hc, h5 hc⟩

/-- Unknown kind of deviate ⇒ the `deviation` statement that holds the `deviate` substatement whose
argument is none of not-supported / add / replace / delete. -/
theorem deviate_unknown_kind_position (reg : Registry) (opts : Opts) (e : Err)
    (he : e ∈ (processAll reg opts (plugFull reg)).errors) (hp : Positioned e) (hc : e.cls = "deviate-unknown-kind") :
    ∃ s, StmtOf reg s ∧ At e s ∧ s.kw = "deviation" ∧
      ∃ dv ∈ s.subs, dv.kw = "deviate" ∧ deviateKinds.contains dv.arg = false := by
  obtain ⟨s, h1, h2, _, h4⟩ := pipeline_positions_who reg opts e he hp
  exact ⟨s, h1, h2, h4.2.2.2.1 hc⟩

/-- The positioned errors of the deviation stage ⇒ the top statement of the deviating (sub)module,
which holds a `deviation` statement with a `deviate` substatement of the kind the class belongs to
(`devKindOf`: `add` for a second / an already existing default, `not-supported` for a target without
parent or already removed, `delete` for the default errors of delete). -/
theorem deviation_error_position (reg : Registry) (opts : Opts) (e : Err)
    (he : e ∈ (processAll reg opts (plugFull reg)).errors) (hp : Positioned e) (hc : e.cls ∈ devStageClasses) :
    ∃ s, StmtOf reg s ∧ At e s ∧ TopOf reg s ∧
      ∃ dv ∈ s.subs, dv.kw = "deviation" ∧ ∃ ds ∈ dv.subs, ds.kw = "deviate" ∧ ds.arg = devKindOf e.cls := by
  obtain ⟨s, h1, h2, _, h4⟩ := pipeline_positions_who reg opts e he hp
  exact ⟨s, h1, h2, h4.2.2.2.2 hc⟩

/-- From the files, all classes: every positioned error of `processFiles` stands at a statement `s`
occurring in one of the given files, the one its class names (`Names` and `Who`). -/
theorem processFiles_positions_who (opts : Opts) (files : List SrcFile) (out : Outcome)
    (h : processFiles opts files = .ok out) :
    ∀ e ∈ out.errors, Positioned e →
      ∃ f ∈ files, ∃ top ∈ f.stmts, ∃ s, Within s top ∧ At e s ∧ Names e.cls s ∧ Who (loadFiles files) e.cls s := by
  unfold processFiles at h
  split at h
  · cases h
  · simp only [Except.ok.injEq] at h
    subst h
    intro e he hp
    obtain ⟨s, ⟨m, hm, hw⟩, hat, hn, hwho⟩ := pipeline_positions_who (loadFiles files) opts e he hp
    obtain ⟨f, hf, htop⟩ := Goyang.Lemmas.PositionsTypes.loadFiles_mods files m hm
    exact ⟨f, hf, m.stmt, htop, s, hw, hat, hn, hwho⟩

/-! ### the sites themselves -/

/-- `Entry.add` exactly: when a child of that name exists the entry gains one error, `duplicate-key`
at its own source statement, and the new child is dropped; otherwise no error and the child is
appended. -/
theorem duplicate_key_iff_child_exists (e : Entry) (k : String) (v : Entry) :
    ((e.child? k).isSome = true → (e.add k v).d.errors = e.d.errors ++ [Err.at_ e.d.node "duplicate-key"] ∧
        (e.add k v).dir = e.dir) ∧
    ((e.child? k).isSome = false → (e.add k v).d.errors = e.d.errors ∧ (e.add k v).dir = e.dir ++ [v]) := by
  unfold Entry.add
  cases hk : e.child? k with
  | none => cases e; simp [Entry.withDir, Entry.d, Entry.dir]
  | some x => cases e; simp [Entry.addErr, Entry.withD, Entry.d, Entry.dir]

/-- While `ToEntry` converts the substatements of a statement `n`, the entry under construction keeps
`n` as its source statement — so the `duplicate-key` error of `Entry.add` stands at `n`. -/
theorem entry_under_construction_keeps_node (env : Env) (rec : Goyang.Lemmas.Tree.Rec) (root : Mod) (n : Stmt)
    (sub : List Stmt) (visiting : List NodeId) (isMod : Bool) (fields : List String) (st : TState) :
    (fields.foldl (Goyang.Lemmas.Tree.stepFn env rec root n sub visiting isMod) (Goyang.Lemmas.Tree.e0 root n, st)).1.d.node = n :=
  Eq.trans (Goyang.Lemmas.PositionsWho.nodeKeep_fold_steps env rec root n sub visiting isMod fields _)
    (Goyang.Lemmas.Tree.e0_data root n).2.2.2.1

/-! ## AST builder -/

section AstBuilder
open Goyang.Model.Ast Goyang.Spec.Ast Goyang.Lemmas.PositionsAst

/-- Every position in an error of the AST builder is the start of the statement handed to it or
of one of its transitive substatements — the one the error is about (`Ast.Blames`): the statement
whose keyword has no node type, the unknown substatement itself, the statement that lacks a
mandatory substatement (or holds one that is mandatory for another keyword only). -/
theorem build_error_positions {tbl : Schema} (h : WF tbl) (s : Ast.Stmt) (p : Option Nat) (e : Ast.Err)
    (pq : Nat × Nat) (hb : build tbl s p = .error e) (hpos : e.pos = some pq) :
    ∃ c, Ast.Within c s ∧ pq = (c.line, c.col) ∧ Ast.Blames tbl s e.cls c := by
  obtain ⟨c, hc, hpq⟩ := build_blames (Goyang.Lemmas.Ast.WF.toP h) s p e pq hb hpos
  exact ⟨c, blames_within hc, hpq, hc⟩

/-- Unknown field ⇒ the unknown substatement itself: a positioned `unknown … field` error stands
at a substatement `c` of a statement `par` of the tree in whose context the keyword of `c` is
not known (and carries no prefix) — or, for the check after the loop, at the statement that holds
a substatement mandatory for another keyword only (`belongs-to` in a `module`). -/
theorem unknown_field_position {tbl : Schema} (h : WF tbl) (s : Ast.Stmt) (p : Option Nat) (e : Ast.Err)
    (pq : Nat × Nat) (hb : build tbl s p = .error e) (hpos : e.pos = some pq) (hc : e.cls = .unknownField) :
    ∃ c, pq = (c.line, c.col) ∧
      ((∃ par T, Ast.Within par s ∧ c ∈ par.subs ∧ Ast.nodeType tbl par = some T ∧
          knownIn tbl T c.kw = false ∧ prefixed c.kw = false) ∨
       (∃ T f, Ast.Within c s ∧ Ast.nodeType tbl c = some T ∧ f ∈ T.fields ∧ Ast.foreignFor tbl c f = true ∧
          subsOf tbl f c.subs ≠ [])) := by
  obtain ⟨c, _, hpq, hbl⟩ := build_error_positions h s p e pq hb hpos
  rw [hc] at hbl
  refine ⟨c, hpq, ?_⟩
  cases hbl with
  | unknownField h1 h2 h3 h4 h5 => exact Or.inl ⟨_, _, h1, h2, h3, h4, h5⟩
  | foreign h1 h2 h3 h4 h5 => exact Or.inr ⟨_, _, h1, h2, h3, h4, h5⟩

/-- Missing required ⇒ the statement that lacks it. -/
theorem missing_required_position {tbl : Schema} (h : WF tbl) (s : Ast.Stmt) (p : Option Nat) (e : Ast.Err)
    (pq : Nat × Nat) (hb : build tbl s p = .error e) (hpos : e.pos = some pq) (hc : e.cls = .missing) :
    ∃ c T f, Ast.Within c s ∧ pq = (c.line, c.col) ∧ Ast.nodeType tbl c = some T ∧ f ∈ T.fields ∧
      Ast.mandatoryFor tbl c f = true ∧ subsOf tbl f c.subs = [] := by
  obtain ⟨c, _, hpq, hbl⟩ := build_error_positions h s p e pq hb hpos
  rw [hc] at hbl
  cases hbl with
  | missing h1 h2 h3 h4 h5 => exact ⟨c, _, _, h1, hpq, h2, h3, h4, h5⟩

/-- Unknown statement ⇒ that statement. -/
theorem unknown_statement_position {tbl : Schema} (h : WF tbl) (s : Ast.Stmt) (p : Option Nat) (e : Ast.Err)
    (pq : Nat × Nat) (hb : build tbl s p = .error e) (hpos : e.pos = some pq) (hc : e.cls = .unknownStmt) :
    ∃ c, Ast.Within c s ∧ pq = (c.line, c.col) ∧ typeFor tbl c.kw = none := by
  obtain ⟨c, _, hpq, hbl⟩ := build_error_positions h s p e pq hb hpos
  rw [hc] at hbl
  cases hbl with
  | unknownStmt h1 h2 => exact ⟨c, h1, hpq, h2⟩

/-- `already set` errors (a second occurrence of a single-valued substatement) carry no position;
neither do the errors that stand for a Go panic. -/
theorem already_set_unpositioned {tbl : Schema} (s : Ast.Stmt) (p : Option Nat) (e : Ast.Err)
    (hb : build tbl s p = .error e) (hc : e.cls = .alreadySet) : e.pos = none :=
  build_alreadySet_unpositioned s p e hb hc

end AstBuilder

/-- The tag table regenerated from pkg/yang on this run is well-formed (kernel evaluation; the same
obligation as `Goyang.Props.C03.gen_table_wf`, repeated here so that this file does not depend on
another property's theorem file). -/
theorem gen_table_wf : Goyang.Spec.Ast.WF Goyang.Gen.AstSchema.table := by decide +kernel

/-- `build_error_positions` for the regenerated table. -/
theorem gen_build_error_positions (s : Ast.Stmt) (p : Option Nat) (e : Ast.Err) (pq : Nat × Nat)
    (hb : Ast.build Goyang.Gen.AstSchema.table s p = .error e) (hpos : e.pos = some pq) :
    ∃ c, Ast.Within c s ∧ pq = (c.line, c.col) ∧ Ast.Blames Goyang.Gen.AstSchema.table s e.cls c :=
  build_error_positions gen_table_wf s p e pq hb hpos

/-! ## Non-vacuity: concrete inputs -/

namespace Ex

def st (line col : Nat) (kw arg : String) (subs : List Stmt := []) : Stmt := .mk kw true arg "x.yang" line col subs

/-- `uses nosuch;` at 5:5, a leaf with `config maybe;`, a leaf-list with `max-elements 0;` and
`ordered-by me;`. -/
def usesS : Stmt := st 5 5 "uses" "nosuch"
def leafS : Stmt := st 6 5 "leaf" "x" [st 6 14 "type" "string", st 6 27 "config" "maybe"]
def llS : Stmt :=
  st 7 5 "leaf-list" "y" [st 7 19 "type" "string", st 7 32 "max-elements" "0", st 7 48 "ordered-by" "me"]
def contS : Stmt := st 4 3 "container" "c" [usesS, leafS, llS]
def modS : Stmt := st 1 1 "module" "a" [st 2 3 "namespace" "urn:a", st 3 3 "prefix" "a", contS]
/-- the same module without the `uses` statement -/
def modT : Stmt :=
  st 1 1 "module" "a" [st 2 3 "namespace" "urn:a", st 3 3 "prefix" "a", st 4 3 "container" "c" [leafS, llS]]

def reg : Registry := (Registry.loadAll [modS]).1
def regT : Registry := (Registry.loadAll [modT]).1
def m : Mod := { seq := 0, stmt := modS }

def plug : Plug :=
  { tres := { resolve := fun _ _ _ t => (some { dump := t.arg }, []) },
    identityErrs := fun _ => [], typedefErrs := fun _ => [] }
def env : Env := { reg := reg, tres := plug.tres, linked := [0] }

-- the hypotheses of the resolver theorems are satisfiable (registry with `uses nosuch;`)
example : PlugPositionsOK reg plug := errorfree_plug_ok _ reg plug (fun _ _ _ => rfl) rfl rfl
example : PlugPositionsAt Names reg plug := errorfree_plug_ok _ reg plug (fun _ _ _ => rfl) rfl rfl
example : reg.mods = [m] := rfl
example : (linkAll reg).1 = [0] := by decide +kernel

-- … and the conclusion is about something: converting the `uses nosuch;` statement of that registry
-- yields exactly one error, `unknown-group` at 5:5, which is a statement start of the loaded set.
-- (`String.contains`, which the grouping search uses for "has a prefix", does not reduce in the
-- kernel, so the search result comes from the binding lemma of the C06 layer and the whole
-- pipeline is evaluated below on the sibling registry without the `uses`; `#eval` of
-- `processAll reg {} plug` gives the four errors 5:5, 6:5, 7:32, 7:48.)
example : toEntry env 21 m [contS, modS] usesS [] {} = (errorEntry m usesS "unknown-group", {}) ∧
    (errorEntry m usesS "unknown-group").allErrors =
      [{ file := "x.yang", line := 5, col := 5, cls := "unknown-group" }] :=
  uses_of_unknown_grouping env 20 m [contS, modS] usesS [] {} rfl
    ((Goyang.Lemmas.Uses.findGrouping_local reg [0] m [contS] "nosuch" 56 (by decide) (by decide) (by decide)).trans rfl)
example : StmtPositions reg "x.yang" 5 5 := (allPositions_spec reg _ _ _).1 (by decide +kernel)
example : ¬ StmtPositions reg "x.yang" 5 6 := fun h => absurd ((allPositions_spec reg _ _ _).2 h) (by decide +kernel)

-- the whole pipeline, evaluated by the kernel independently of the proofs: three positioned errors,
-- each at the statement its class names, each passing the Boolean check
example : (processAll regT {} plug).errors.map (fun e => (e.file, e.line, e.col, e.cls)) =
    [("x.yang", 6, 5, "bad-tristate"), ("x.yang", 7, 32, "bad-max-elements"), ("x.yang", 7, 48, "bad-ordered-by")] := by
  decide +kernel
example : (processAll regT {} plug).errors.all (posOKb regT) = true := by decide +kernel
example : (processAll regT {} plug).errors.all (posOKb regT) = true :=
  semantic_positions_check regT {} plug (errorfree_plug_ok _ regT plug (fun _ _ _ => rfl) rfl rfl)

-- WHICH statement (`Who`): concrete module sets for each class of the resolver's own stages.
def leafX (l c : Nat) : Stmt := st l c "leaf" "x" [st l (c + 9) "type" "string"]
/-- `container c { leaf x …; leaf x …; }` at 4:3 -/
def contK : Stmt := st 4 3 "container" "c" [leafX 5 5, leafX 6 5]
def modK : Stmt := st 1 1 "module" "a" [st 2 3 "namespace" "urn:a", st 3 3 "prefix" "a", contK]
def regK : Registry := (Registry.loadAll [modK]).1
/-- `deviation /a:c/a:x { deviate frobnicate; }` at 7:3 -/
def devD : Stmt := st 7 3 "deviation" "/a:c/a:x" [st 8 5 "deviate" "frobnicate"]
def modD : Stmt :=
  st 1 1 "module" "a" [st 2 3 "namespace" "urn:a", st 3 3 "prefix" "a", st 4 3 "container" "c" [leafX 5 5], devD]
def regD : Registry := (Registry.loadAll [modD]).1

-- the hypothesis of `semantic_positions_who` is satisfiable, and the whole pipeline evaluated by the
-- kernel independently of the proofs gives: duplicate key ⇒ the PARENT container at 4:3 (not the
-- second `leaf x` at 6:5); unknown kind of deviate ⇒ the `deviation` statement at 7:3
example : PlugPositionsAt (NamesW regK) regK plug := errorfree_plug_ok_who regK plug (fun _ _ _ => rfl) rfl rfl
example : PlugPositionsAt (NamesWP (Goyang.Lemmas.PositionsWho.LeftOver regK {} plug) regK) regK plug :=
  errorfree_plug_ok _ regK plug (fun _ _ _ => rfl) rfl rfl
example : (processAll regK {} plug).errors.map (fun e => (e.file, e.line, e.col, e.cls)) =
    [("x.yang", 4, 3, "duplicate-key")] := by decide +kernel
example : (processAll regD {} plug).errors.map (fun e => (e.file, e.line, e.col, e.cls)) =
    [("x.yang", 7, 3, "deviate-unknown-kind")] := by decide +kernel
-- `Who` says something: it holds of the container and fails of the second leaf; it holds of the
-- deviation statement
example : Who regK "duplicate-key" contK ∧ ¬ Who regK "duplicate-key" (leafX 6 5) := by
  refine ⟨⟨fun _ => ⟨leafX 5 5, List.Mem.head _, by decide, by decide⟩, ?_, ?_, ?_, ?_⟩, ?_⟩
  · intro h; exact absurd h (by decide)
  · intro h; exact absurd h (by decide)
  · intro h; exact absurd h (by decide)
  · intro h; exact absurd h (by decide)
  · intro h
    obtain ⟨c, hc, hk, _⟩ := h.1 rfl
    revert hk
    have : c = st 6 14 "type" "string" := by simpa [leafX, st, Stmt.subs] using hc
    subst this
    decide
example : Who regD "deviate-unknown-kind" devD := by
  refine ⟨?_, ?_, ?_, fun _ => ⟨rfl, st 8 5 "deviate" "frobnicate", List.Mem.head _, rfl, by decide⟩, ?_⟩ <;>
    intro h <;> exact absurd h (by decide)
-- the merge site, evaluated: a grouping `g` (9:3) with a leaf `x` merged into a container that has a
-- child `x` leaves `duplicate-node` at the grouping statement
def grpE : Entry :=
  .mk { name := "g", node := st 9 3 "grouping" "g" } [.mk { name := "x", kind := .leaf, hasDir := false } [] [] []] [] []
def tgtE : Entry :=
  .mk { name := "c", node := st 4 3 "container" "c" } [.mk { name := "x", kind := .leaf, hasDir := false } [] [] []] [] []
example : (tgtE.merge none grpE).d.errors = [{ file := "x.yang", line := 9, col := 3, cls := "duplicate-node" }] := by
  decide
-- The augment and deviation stages go through `Entry.Find`, whose string functions the kernel does
-- not evaluate; `#eval (processAll r {} plug).errors` gives, for
--   module a { … container c { leaf x … } augment "/a:c" { leaf x … } augment "/a:nosuch" { leaf y … } }
-- with the augments at 7:3 and 10:3: duplicate-node at 7:3 and augment-not-found at 10:3; and for
--   module a { … container c { leaf x { type string; default "0"; } }
--              deviation "/a:c/a:x" { deviate add { default "1"; } } }
-- deviate-add-default-exists at 1:1 (the module statement; `devKindOf` of the class is `add`).
-- The fault injector corr-c16sem checks these positions on the Go side.

-- the assembled pipeline (`plugFull`): its theorems have no hypotheses.  On
--   module a { … leaf x { type nosuch; } leaf y { type int8 { range "5..1"; } } leaf z { type string { length "a"; } } }
-- with the `type` statements at 4:12, 5:12, 6:12, the `range` at 5:24 and the `length` at 6:26,
-- `#eval (processAll r {} (plugFull r)).errors` gives unknown-type at 4:12, bad-range at 5:24 and
-- bad-length at 6:26 (the kernel does not evaluate the byte-string functions of the type layer, so
-- this one is not an `example`).  The hypothesis of `processFiles_positions` is satisfiable:
example : ∃ out, processFiles {} [] = .ok out := ⟨_, rfl⟩
example : PlugPositionsAt Names reg (plugFull reg) := plugFull_keeps_positions reg

-- AST builder, over the regenerated table
open Goyang.Model.Ast in
def b (s : String) : Bytes := s.toList.map (fun c => c.toNat.toUInt8)
def ast (line col : Nat) (kw arg : String) (subs : List Ast.Stmt := []) : Ast.Stmt := .mk (b kw) true (b arg) line col subs
def report : Except Ast.Err Ast.ANode → Option (Ast.ErrClass × Option (Nat × Nat))
  | .ok _ => none
  | .error e => some (e.cls, e.pos)
abbrev table : Ast.Schema := Goyang.Gen.AstSchema.table

/-- a leaf without `type` at 5:7 -/
def modBad : Ast.Stmt :=
  ast 1 1 "module" "m" [ast 2 3 "namespace" "n", ast 3 3 "prefix" "p", ast 4 3 "container" "c" [ast 5 7 "leaf" "l"]]

-- missing required ⇒ the statement that lacks it; unknown field ⇒ the unknown substatement;
-- already set ⇒ no position; a field mandatory for another keyword only ⇒ the statement itself
example : report (Ast.build table modBad none) = some (.missing, some (5, 7)) := by decide +kernel
example : report (Ast.build table (ast 1 1 "module" "m" [ast 2 3 "namespace" "n", ast 3 3 "prefix" "p",
    ast 4 3 "container" "c" [ast 5 9 "foo" "x"]]) none) = some (.unknownField, some (5, 9)) := by decide +kernel
example : report (Ast.build table (ast 1 1 "module" "m" [ast 2 3 "namespace" "n", ast 3 3 "prefix" "p",
    ast 4 3 "namespace" "q"]) none) = some (.alreadySet, none) := by decide +kernel
example : report (Ast.build table (ast 1 1 "module" "m" [ast 2 3 "namespace" "n", ast 3 3 "prefix" "p",
    ast 4 3 "belongs-to" "x" [ast 4 20 "prefix" "p"]]) none) = some (.unknownField, some (1, 1)) := by decide +kernel

-- the hypotheses of `build_error_positions` on a concrete input, and its conclusion
example : ∃ c, Ast.Within c modBad ∧ (5, 7) = (c.line, c.col) ∧ Ast.Blames table modBad .missing c := by
  have hr : report (Ast.build table modBad none) = some (.missing, some (5, 7)) := by decide +kernel
  cases hb : Ast.build table modBad none with
  | ok a => rw [hb] at hr; cases hr
  | error e =>
    rw [hb] at hr
    simp only [report, Option.some.injEq, Prod.mk.injEq] at hr
    have := gen_build_error_positions modBad none e (5, 7) hb hr.2
    rw [hr.1] at this
    exact this

end Ex

end Goyang.Props.C16Sem
