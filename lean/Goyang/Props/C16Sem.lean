import Goyang.Lemmas.Positions
/-
C16 — reported source positions are the true positions (DESIGN.md 7.16), semantic part:
"Every file:line:column that appears in an error from building or resolving a module is the start
of a statement of that file, namely the unknown substatement itself, the statement that lacks a
mandatory substatement, or the type, uses, range, length or enum statement whose name or value is
bad."

The lexer / parser part (what the position of a statement *is*) is Props/C16.lean.  Here the
positions are the `file`/`line`/`col` fields of the statements handed to the resolver model
(`Goyang.Model.processAll`) and to the AST builder model (`Goyang.Model.Ast.build`).
Specification: Goyang/Spec/Positions.lean.
-/
namespace Goyang.Props.C16Sem
open Goyang.Model Goyang.Spec.Positions Goyang.Lemmas.Positions

/-! ## Resolver -/

/-- Every position that appears in an error returned by `Modules.Process` is the start of a
statement of a loaded module or submodule — provided the plugged layers (type, identity and
typedef resolution) keep the same discipline.  Invariant behind it: an error is only ever built
as `Err.at_ s cls` with `s` a statement of a loaded module (or the `node` of an entry, which is
one), or as `Err.bare cls`. -/
theorem semantic_positions_are_statement_starts (reg : Registry) (opts : Opts) (plug : Plug)
    (hplug : PlugPositionsOK reg plug) :
    ∀ e ∈ (processAll reg opts plug).errors, Positioned e → StmtPositions reg e.file e.line e.col :=
  fun e he => processAll_errors_ok hplug opts e he

/-- The same in executable form: every returned error passes the Boolean check against the list
of all statement starts of the loaded set. -/
theorem semantic_positions_check (reg : Registry) (opts : Opts) (plug : Plug)
    (hplug : PlugPositionsOK reg plug) :
    (processAll reg opts plug).errors.all (posOKb reg) = true := by
  rw [List.all_eq_true]
  intro e he
  exact (posOKb_iff reg e).2 (processAll_errors_ok hplug opts e he)

/-- `allPositions` is the set the specification speaks about. -/
theorem allPositions_spec (reg : Registry) (f : String) (l c : Nat) :
    (f, l, c) ∈ allPositions reg ↔ StmtPositions reg f l c := mem_allPositions_iff reg f l c

end Goyang.Props.C16Sem
