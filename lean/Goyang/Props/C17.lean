import Goyang.Lemmas.Find
/-
C17 — schema path lookup finds exactly the node the path names.

Model: `Goyang.Model.find` / `walkParts` (Model/Find.lean, a transliteration of `Entry.Find` after
the repairs ec88a45 (below an rpc/action only `input`/`output` exist, an absent one is created with
its parent), 181512d (an action without written input/output is rpc-like too) and a18c57d (an
absolute path without prefix started in a submodule's private tree is looked up in its owner's).  Specification: Spec/Find.lean (`absPath`, `relPath`, `Spells`/`AbsSpelling`,
`Denotes`, `wfKeys`/`WFForest`, `NamesNoChild`, `Grown`).

Hypotheses and where they come from
* `WFForest f` is a hypothesis here; Props/C17Bridge.lean derives it for the forest of every
  error-free `processAll` (`wfForest_processAll`) from the input predicate `NamesPlain` (the third
  item below) and restates the round trips for `processAll` (`find_abs_roundtrip_processAll`,
  `find_rel_roundtrip_processAll`, …).  Its parts: tree ids are not repeated (`toEntry` files a (sub)module's entry in its cache only
  when the cache has none) and every tree satisfies `wfKeys`:
  - sibling names differ: `Entry.add` / `Entry.merge` refuse a second child of the same name
    (Model/Entry.lean), `wrapCases` and `removeAt` keep names; in Go `Dir` is a map;
  - an rpc/action has no `Dir` children, and only an rpc/action has input/output: `toEntry` gives an
    rpc only `input`/`output` (`fieldOrder "rpc"`), and `augmentTree` refuses an rpc/action node
    itself as target (`cannotHaveChildren` includes `isRpc`; Go: repair 049247d of the former limit
    D17-L2 — `augment "/m:r"` used to file nodes in the rpc's `Dir`, where no path reaches them;
    runner case `augment-into-rpc-rejected`);
  - child names are spellable (`goodName`: not empty, not `.`/`..`, no `/`, no `:`): NOT guaranteed
    by the code (in the bridge: the hypothesis `NamesPlain` on the loaded statements) —
    goyang never checks that a node name is a YANG identifier, so `leaf "a/b"`, `container ".."`,
    `leaf "p:x"` are accepted and cannot be named by any path: documented limit L1 (runner
    witnesses `name-with-slash`, `name-dotdot`, `name-with-colon`, replayed on the Go code on every
    run; the driver evaluates `wfKeys` on every processed forest and the runner reports a lookup
    failure on a forest with `wfKeys = true` as a violation).
* `Denotes reg ctx pfx t`: the property's "module that imports the needed prefixes".

The concrete forest of the non-vacuity examples (`exReg`, `exF`: two modules, b imports a as `qa`;
an rpc with input only, a choice with an implicit case) is `Goyang.Lemmas.Find.Example`.

Everything is proved for all registries, forests, start nodes, targets and spellings; nothing is
left `_partial`.  Axioms: propext, Classical.choice, Quot.sound (via `simp`/`omega` and the
Batteries string lemmas).
-/
namespace Goyang.Props.C17
open Goyang.Model Goyang.Spec.Find Goyang.Lemmas.Find Goyang.Lemmas.Find.Example

/-! ### absolute paths -/

/-- **Absolute round trip, every spelling.**  In a well-formed forest, from any start location
(of any tree, existing or not) whose context module resolves the first step's prefix to the
target's module — or with a bare first step when the target is in the tree of the start's own module
(`homeTree`: a submodule's private tree gives way to its owner's) — and with
the later steps spelled with any prefixes or none: the lookup returns exactly the target location
and leaves the forest untouched.  Targets below rpc/action input and output, inside cases and
grafted nodes are ordinary locations. -/
theorem find_abs_roundtrip_spelled (reg : Registry) (f : Forest) (hwf : WFForest f)
    (start : Loc) (ctx : Nat) (t : Nat) (p : Path) (x : Entry) (parts : List String)
    (hx : nodeAt f (t, p) = some x) (hsp : AbsSpelling reg start ctx t parts p) :
    find reg f start ctx (renderAbs parts) = (some (t, p), f) := by
  unfold nodeAt at hx
  cases ht : f.tree? t with
  | none => simp [ht] at hx
  | some root =>
    simp only [ht, Option.bind_some] at hx
    exact abs_roundtrip reg f start ctx t parts p root x hwf hsp ht hx

/-- **Absolute round trip** (the statement of DESIGN 7.17): the absolute prefixed schema path of
any node, every step carrying a prefix that denotes the target's module in the start node's
context module, finds that node from anywhere, and changes nothing. -/
theorem find_abs_roundtrip (reg : Registry) (f : Forest) (hwf : WFForest f)
    (start : Loc) (ctx : Nat) (pfx : String) (t : Nat) (p : Path) (x : Entry)
    (hp : GoodPrefix pfx) (hden : Denotes reg ctx pfx t) (hne : p ≠ [])
    (hx : nodeAt f (t, p) = some x) :
    find reg f start ctx (absPath pfx p) = (some (t, p), f) := by
  cases p with
  | nil => exact absurd rfl hne
  | cons s q =>
    exact find_abs_roundtrip_spelled reg f hwf start ctx t (s :: q) x _ hx
      (AbsSpelling.pfx pfx s _ q hp hden (spells_prefixed hp q))

/-- The same for every node of every tree as enumerated by walking the tree (`nodes`): with
distinct sibling names the enumeration and the locations coincide, so "every node" is covered. -/
theorem find_abs_roundtrip_nodes (reg : Registry) (f : Forest) (hwf : WFForest f)
    (start : Loc) (ctx : Nat) (pfx : String) (t : Nat) (root : Entry) (p : Path) (x : Entry)
    (hp : GoodPrefix pfx) (hden : Denotes reg ctx pfx t) (ht : f.tree? t = some root)
    (hmem : (p, x) ∈ nodes root) (hne : p ≠ []) :
    find reg f start ctx (absPath pfx p) = (some (t, p), f) ∧ nodeAt f (t, p) = some x := by
  have hroot : wfKeys root = true := hwf.2 _ (tree?_mem ht)
  have hx : nodeAt f (t, p) = some x := by
    simp only [nodeAt, ht, Option.bind_some]
    exact getAt_nodes root hroot (p, x) hmem
  exact ⟨find_abs_roundtrip reg f hwf start ctx pfx t p x hp hden hne hx, hx⟩

/-- Non-vacuity: from `/b/k/z` (module b, which imports a as `qa`) the path
`/qa:r/qa:input/qa:i` finds the leaf below the rpc input of module a. -/
example : find exReg exF (1, [.child "k", .child "z"]) 1 (absPath "qa" [.child "r", .input, .child "i"]) =
    (some (0, [.child "r", .input, .child "i"]), exF) :=
  find_abs_roundtrip exReg exF exF_wf _ 1 "qa" 0 _ (leaf "i") good_qa exReg_qa (by simp) (by rfl)

/-- Non-vacuity: the node inside the implicit case, later steps written without prefix. -/
example : find exReg exF (1, []) 1 (renderAbs ["qa:ch", "x0", "zz:x0"]) =
    (some (0, [.child "ch", .child "x0", .child "x0"]), exF) :=
  find_abs_roundtrip_spelled exReg exF exF_wf _ 1 0 _ (leaf "x0") _ (by rfl)
    (AbsSpelling.pfx "qa" (.child "ch") _ _ good_qa exReg_qa
      (Spells.cons (SpellsStep.bare (.child "x0")) (Spells.cons (SpellsStep.pfx "zz" (.child "x0") ⟨by decide, by decide, by decide⟩) Spells.nil)))

/-- Non-vacuity: a bare first step stays in the start node's own tree. -/
example : find exReg exF (1, [.child "y"]) 1 (renderAbs ["k", "z"]) = (some (1, [.child "k", .child "z"]), exF) :=
  find_abs_roundtrip_spelled exReg exF exF_wf _ 1 1 _ (leaf "z") _ (by rfl)
    (AbsSpelling.own (.child "k") _ _ (by rfl) (Spells.cons (SpellsStep.bare (.child "z")) Spells.nil))

/-- Non-vacuity of the enumeration: the rpc input leaf is a member of `nodes treeA`. -/
example : (([.child "r", .input, .child "i"] : Path), leaf "i") ∈ nodes treeA := by
  simp [nodes, nodesDir, nodesSlot, treeA, dirE, leaf, Entry.name, Entry.d]

/-! ### relative paths -/

/-- **Relative round trip**: between any two nodes `a`, `b` of one tree of a well-formed forest
the relative path (`..` up to the deepest common ancestor, then the names down; `.` when `a = b`)
leads from `a` to exactly `b` and changes nothing — also out of and into rpc input/output and
cases. -/
theorem find_rel_roundtrip (reg : Registry) (f : Forest) (hwf : WFForest f) (ctx t : Nat) (a b : Path)
    (xa xb : Entry) (ha : nodeAt f (t, a) = some xa) (hb : nodeAt f (t, b) = some xb) :
    find reg f (t, a) ctx (relPath a b) = (some (t, b), f) := by
  unfold nodeAt at ha hb
  cases ht : f.tree? t with
  | none => simp [ht] at ha
  | some root =>
    simp only [ht, Option.bind_some] at ha hb
    exact rel_roundtrip reg f ctx t a b root xa xb hwf ht ha hb

/-- The general form: any number of `..` up to *any* common ancestor `c` (not only the deepest),
then any spelling of the steps down (with or without prefixes). -/
theorem find_rel_roundtrip_spelled (reg : Registry) (f : Forest) (hwf : WFForest f) (ctx t : Nat)
    (c ra rb : Path) (dparts : List String) (xa xb : Entry)
    (ha : nodeAt f (t, c ++ ra) = some xa) (hb : nodeAt f (t, c ++ rb) = some xb)
    (hd : Spells dparts rb) (hne : List.replicate ra.length ".." ++ dparts ≠ []) :
    find reg f (t, c ++ ra) ctx (renderRel (List.replicate ra.length ".." ++ dparts)) = (some (t, c ++ rb), f) := by
  unfold nodeAt at ha hb
  cases ht : f.tree? t with
  | none => simp [ht] at ha
  | some root =>
    simp only [ht, Option.bind_some] at ha hb
    exact rel_roundtrip_gen reg f ctx t c ra rb dparts root xa xb hwf ht ha hb hd hne

/-- Non-vacuity: from the leaf below the rpc input up three levels and down into the implicit case. -/
example : find exReg exF (0, [.child "r", .input, .child "i"]) 0
      (relPath [.child "r", .input, .child "i"] [.child "ch", .child "x0", .child "x0"]) =
    (some (0, [.child "ch", .child "x0", .child "x0"]), exF) :=
  find_rel_roundtrip exReg exF exF_wf 0 0 _ _ (leaf "i") (leaf "x0") (by rfl) (by rfl)

example : relParts [.child "r", .input, .child "i"] [.child "r", .input] = [".."] := by decide
example : relParts [.child "c"] [.child "c"] = ["."] := by decide
example : relParts [.child "c", .child "x"] [.child "ch", .child "x0"] = ["..", "..", "ch", "x0"] := by decide

/-! ### steps that name nothing -/

/-- **Absent step.**  If the path up to some step reaches a node (`find` on the prefix path
returns it) and the next written step names no child of that node — below an rpc/action anything
but `input`/`output`; elsewhere a name that is not a key of `Dir`, including the empty name — then
the lookup of the whole path, whatever follows the bad step, returns nothing.  Absolute
(`abs = true`) and relative paths. -/
theorem find_absent_step (reg : Registry) (f : Forest) (start : Loc) (ctx : Nat) (abs : Bool)
    (pre : List String) (bad : String) (post : List String) (loc : Loc) (f' : Forest) (e : Entry)
    (hne : pre ≠ []) (hslash : ∀ s ∈ pre ++ bad :: post, '/' ∉ s.toList)
    (hrel : abs = false → pre.head? ≠ some "")
    (hreach : find reg f start ctx (render abs pre) = (some loc, f'))
    (hnode : nodeAt f' loc = some e) (hbad : NamesNoChild e bad) :
    (find reg f start ctx (render abs (pre ++ bad :: post))).1 = none :=
  absent_step reg f start ctx abs pre bad post loc f' e hne hslash hrel hreach hnode hbad

/-- The first step of a relative path names no child of the start node. -/
theorem find_absent_first_step_rel (reg : Registry) (f : Forest) (start : Loc) (ctx : Nat)
    (bad : String) (post : List String) (e : Entry)
    (hslash : ∀ s ∈ bad :: post, '/' ∉ s.toList) (hb0 : bad ≠ "")
    (hnode : nodeAt f start = some e) (hbad : NamesNoChild e bad) :
    (find reg f start ctx (renderRel (bad :: post))).1 = none :=
  absent_first_rel reg f start ctx bad post e hslash hb0 hnode hbad

/-- The first step of an absolute path names no child of the root of the tree its prefix selects
(`t`: the tree of the start's own module for a bare step, else the tree the prefix denotes). -/
theorem find_absent_first_step_abs (reg : Registry) (f : Forest) (start : Loc) (ctx : Nat)
    (bad : String) (post : List String) (t : Nat) (root : Entry)
    (hslash : ∀ s ∈ bad :: post, '/' ∉ s.toList)
    (hsel : (if (splitPrefix bad).1 == "" then some (homeTree reg start.1)
             else prefixTree reg ctx (splitPrefix bad).1) = some t)
    (ht : f.tree? t = some root) (hbad : NamesNoChild root bad) :
    (find reg f start ctx (renderAbs (bad :: post))).1 = none :=
  absent_first_abs reg f start ctx bad post t root hslash hsel ht hbad

/-- A first prefix that the context module does not bind to a loaded module: nothing is found;
goyang records the failure as an error on the root entry of the tree the lookup started in (that
is the forest `withPrefixError`), everything else is unchanged. -/
theorem find_unknown_prefix (reg : Registry) (f : Forest) (start : Loc) (ctx : Nat) (parts : List String)
    (hne : parts ≠ []) (hslash : ∀ s ∈ parts, '/' ∉ s.toList)
    (hp : (splitPrefix (parts.headD "")).1 ≠ "")
    (hsel : prefixTree reg ctx (splitPrefix (parts.headD "")).1 = none) :
    find reg f start ctx (renderAbs parts) = (none, withPrefixError f start.1) :=
  unknown_prefix reg f start ctx parts hne hslash hp hsel

/-- `..` above the root of a tree returns nothing. -/
theorem find_above_root (reg : Registry) (f : Forest) (t ctx : Nat) (post : List String)
    (hslash : ∀ s ∈ post, '/' ∉ s.toList) :
    (find reg f (t, []) ctx (renderRel (".." :: post))).1 = none :=
  above_root reg f t ctx post hslash

/-- The empty path returns nothing. -/
theorem find_empty (reg : Registry) (f : Forest) (start : Loc) (ctx : Nat) :
    find reg f start ctx "" = (none, f) := by simp [find]

/-- Non-vacuity (the defect D17 repaired by ec88a45): `/qa:r/qa:bogus/qa:i` — a step other than
input/output below the rpc — finds nothing. -/
example : (find exReg exF (1, []) 1 (render true (["qa:r"] ++ "qa:bogus" :: ["qa:i"]))).1 = none :=
  find_absent_step exReg exF (1, []) 1 true ["qa:r"] "qa:bogus" ["qa:i"] (0, [.child "r"]) exF
    (.mk { name := "r", isRpc := true } [] [.mk { name := "input", kind := .input } [leaf "i"] [] []] [])
    (by simp) (by decide) (by simp)
    (find_abs_roundtrip exReg exF exF_wf _ 1 "qa" 0 [.child "r"] _ good_qa exReg_qa (by simp) (by rfl))
    (by rfl)
    ⟨by decide, by decide, by
      show (if true = true then _ else _)
      rw [if_pos rfl]
      simp only [stripPrefix, bogus_split]
      decide⟩

/-- Non-vacuity: an extra trailing step below a leaf (`x/q` from `/a/c`). -/
example : (find exReg exF (0, [.child "c"]) 0 (render false (["x"] ++ "q" :: []))).1 = none :=
  find_absent_step exReg exF (0, [.child "c"]) 0 false ["x"] "q" [] (0, [.child "c", .child "x"]) exF (leaf "x")
    (by simp) (by decide) (by simp)
    (find_rel_roundtrip exReg exF exF_wf 0 0 [.child "c"] [.child "c", .child "x"] _ (leaf "x") (by rfl) (by rfl))
    (by rfl)
    ⟨by decide, by decide, by
      show (if false = true then _ else _)
      rw [if_neg (by decide)]
      simp only [stripPrefix, splitPrefix_bare "q" (by decide)]
      exact ⟨by decide, by rfl⟩⟩

/-! ### frame -/

/-- **Frame.**  Whatever the start and the path, a lookup changes at most one tree of the
forest, and only in one of two ways: by `Grown` — zero or more creations of an absent rpc/action
input or output (`GrowStep`), nothing else — or, when the lookup fails because the first prefix
cannot be resolved, by the error goyang records on the root entry of the start tree.  (For the
paths of existing nodes the round-trip theorems give "no change at all".) -/
theorem find_frame (reg : Registry) (f : Forest) (start : Loc) (ctx : Nat) (name : String) :
    (find reg f start ctx name).2 = f ∨
    (∃ t root root', f.tree? t = some root ∧ Grown root root' ∧ (find reg f start ctx name).2 = f.setTree t root') ∨
    ((find reg f start ctx name).1 = none ∧ (find reg f start ctx name).2 = withPrefixError f start.1) :=
  frame reg f start ctx name

/-- What `Grown` cannot do: every location of the old tree is a location of the new tree and
carries the same node data (name, kind, config, …) — nothing is lost, moved or edited. -/
theorem grown_keeps_nodes (a b : Entry) (h : Grown a b) (q : Path) (x : Entry) (hx : a.getAt q = some x) :
    ∃ x', b.getAt q = some x' ∧ x'.d = x.d :=
  grown_getAt h q x hx

/-- The step loop itself, for any parts (the statement `find_frame` is built on). -/
theorem walkParts_frame (parts : List String) (root : Entry) (cur : Option Path) :
    Grown root (walkParts parts root cur).2 :=
  walkParts_grown parts root cur

/-- Non-vacuity of growth: rpc `r` of the example has no output; creating it is a `GrowStep`, and
the new tree has the implicit output where the old tree had nothing. -/
example : GrowStep treeA (treeA.updateAt [.child "r"] (addImplicit false)) ∧
    treeA.getAt [.child "r", .output] = none ∧
    ((treeA.updateAt [.child "r"] (addImplicit false)).getAt [.child "r", .output]).map (·.name) = some "output" :=
  ⟨GrowStep.output treeA [.child "r"] _ (by rfl) (by rfl) (by rfl), by rfl, by rfl⟩

end Goyang.Props.C17
