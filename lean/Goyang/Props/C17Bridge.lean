import Goyang.Lemmas.BridgeForest
import Goyang.Lemmas.BridgeRegistry
import Goyang.Lemmas.BridgeLoad
import Goyang.Props.C17
import Goyang.Props.C04
/-
C17, bridge to `processAll` — the hypothesis `WFForest` of the round-trip theorems of Props/C17.lean
is discharged for the forest an error-free `processAll` returns.

`WFForest f` = tree ids are not repeated, and every tree satisfies `wfKeys`: sibling names differ,
child names are spellable (`goodName`), an rpc / action has no `Dir` children and only an rpc /
action has an input / output.  Derived here (Lemmas/BridgeNames*.lean, Lemmas/BridgeForest.lean):

* sibling names differ                      — C04's `process_clean_wf` (`KeysUnique`);
* tree ids not repeated                     — the module cache gets one row per converted (sub)module
  (a row is filed only on a cache miss, and a (sub)module in progress is not converted again); every
  later stage rewrites trees in place;
* rpc shape                                 — `toEntry` gives an rpc / action only input / output,
  `Find` creates an absent one only below an rpc / action, `augmentTree` refuses an rpc / action
  node as target, deviations keep the flag and the children; proved for every input;
* child names spellable                     — NOT a property of the code (goyang does not check
  identifiers: finding D17-L1).  It holds when the INPUT has it: `NamesPlain reg` — every
  anydata / anyxml / case / choice / container / leaf / leaf-list / list / notification / rpc /
  action statement of every loaded (sub)module, at any depth, has an argument that is not empty,
  not `.` or `..`, and contains neither `/` nor `:` (decidable, a predicate on the statements).
  The names of a tree are arguments of such statements of the registry (of the tree's module, of
  groupings and augments of any loaded module) or the fixed `input` / `output`: the generic
  traversal of `toEntry` is run with the call sites known (`InvT`).

The other hypothesis, `Fuel.LoadedShape reg` (distinct sequence numbers), is what loading produces
(`Lemmas.Bridge.loadedShape_loadAll`); the `_loaded` forms below have it discharged.
-/
namespace Goyang.Props.C17Bridge
open Goyang.Model Goyang.Spec.Find Goyang.Spec.Tree
open Goyang.Lemmas.Bridge
open Goyang.Lemmas.Fuel (LoadedShape)

/-! ### `WFForest` -/

/-- `wfKeys` is C04's `KeysUnique` together with the local predicate `gq` (spellable child names,
rpc shape) at every node. -/
theorem wfKeys_of_keysUnique_gq (e : Entry) (hk : KeysUnique e) (hg : everyNode gq e = true) : wfKeys e = true :=
  wfKeys_of e hk hg

/-- After a clean `Process` every tree has `gq` at every node, when the data-node names written in
the loaded statements are spellable. -/
theorem process_clean_names (reg : Registry) (opts : Opts) (plug : Plug) (hnp : NamesPlain reg)
    (h : (processAll reg opts plug).errors = []) :
    ∀ t ∈ (processAll reg opts plug).forest.trees, everyNode gq t.2 = true :=
  process_clean_gq reg opts plug hnp h

/-- The conversion leaves one cache entry per converted (sub)module, and a clean `Process` returns
exactly these trees (rewritten in place): tree ids are not repeated. -/
theorem process_clean_tree_ids (reg : Registry) (opts : Opts) (plug : Plug) (hL : LoadedShape reg)
    (h : (processAll reg opts plug).errors = []) : ((processAll reg opts plug).forest.trees.map (·.1)).Nodup := by
  have := fkeys_processAll reg opts plug h
  unfold Lemmas.Tree.fkeys at this
  rw [this]; exact tstate_ckeys_nodup reg opts plug hL

/-- **`WFForest` of the forest of an error-free `processAll`.** -/
theorem wfForest_processAll (reg : Registry) (opts : Opts) (plug : Plug) (hL : LoadedShape reg)
    (hnp : NamesPlain reg) (h : (processAll reg opts plug).errors = []) :
    WFForest (processAll reg opts plug).forest :=
  process_clean_wfForest reg opts plug hL hnp h

/-- The same for a set of statements loaded into a fresh registry: the only hypothesis besides
"no errors" is the predicate on the names in the input. -/
theorem wfForest_processAll_loaded (ss : List Stmt) (opts : Opts) (plug : Plug)
    (hnp : NamesPlain (Registry.loadAll ss).1) (h : (processAll (Registry.loadAll ss).1 opts plug).errors = []) :
    WFForest (processAll (Registry.loadAll ss).1 opts plug).forest :=
  process_clean_wfForest _ opts plug (loadedShape_loadAll ss) hnp h

/-- … and for texts loaded through `Model.loadTexts` (`Modules.Parse`). -/
theorem wfForest_processAll_loadTexts (texts : List (List UInt8 × List UInt8)) (opts : Opts) (plug : Plug)
    (hnp : NamesPlain (loadTexts texts).1) (h : (processAll (loadTexts texts).1 opts plug).errors = []) :
    WFForest (processAll (loadTexts texts).1 opts plug).forest :=
  process_clean_wfForest _ opts plug (loadedShape_loadTexts texts) hnp h

/-- `NamesPlain` of a loaded registry is a property of the loaded statements. -/
theorem namesPlain_loaded (ss : List Stmt) (h : ∀ s ∈ ss, stmtEvery nameStmtOK s = true) :
    NamesPlain (Registry.loadAll ss).1 := by
  intro m hm
  rcases loadFrom_src ss {} m hm with h1 | h1
  · simp at h1
  · exact h m.stmt h1

/-! ### the round trips of C17, for `processAll` -/

/-- **Absolute round trip, every spelling**, in the forest of an error-free `processAll`. -/
theorem find_abs_roundtrip_spelled_processAll (reg : Registry) (opts : Opts) (plug : Plug) (hL : LoadedShape reg)
    (hnp : NamesPlain reg) (hclean : (processAll reg opts plug).errors = [])
    (start : Loc) (ctx : Nat) (t : Nat) (p : Path) (x : Entry) (parts : List String)
    (hx : nodeAt (processAll reg opts plug).forest (t, p) = some x) (hsp : AbsSpelling reg start ctx t parts p) :
    find reg (processAll reg opts plug).forest start ctx (renderAbs parts) =
      (some (t, p), (processAll reg opts plug).forest) :=
  C17.find_abs_roundtrip_spelled reg _ (wfForest_processAll reg opts plug hL hnp hclean) start ctx t p x parts hx hsp

/-- **Absolute round trip** (DESIGN 7.17): in the forest of an error-free `processAll`, the
absolute prefixed schema path of any node, every step carrying a prefix that denotes the target's
module in the start node's context module, finds that node from anywhere and changes nothing. -/
theorem find_abs_roundtrip_processAll (reg : Registry) (opts : Opts) (plug : Plug) (hL : LoadedShape reg)
    (hnp : NamesPlain reg) (hclean : (processAll reg opts plug).errors = [])
    (start : Loc) (ctx : Nat) (pfx : String) (t : Nat) (p : Path) (x : Entry)
    (hp : GoodPrefix pfx) (hden : Denotes reg ctx pfx t) (hne : p ≠ [])
    (hx : nodeAt (processAll reg opts plug).forest (t, p) = some x) :
    find reg (processAll reg opts plug).forest start ctx (absPath pfx p) =
      (some (t, p), (processAll reg opts plug).forest) :=
  C17.find_abs_roundtrip reg _ (wfForest_processAll reg opts plug hL hnp hclean) start ctx pfx t p x hp hden hne hx

/-- The same for every node as enumerated by walking the tree (`nodes`). -/
theorem find_abs_roundtrip_nodes_processAll (reg : Registry) (opts : Opts) (plug : Plug) (hL : LoadedShape reg)
    (hnp : NamesPlain reg) (hclean : (processAll reg opts plug).errors = [])
    (start : Loc) (ctx : Nat) (pfx : String) (t : Nat) (root : Entry) (p : Path) (x : Entry)
    (hp : GoodPrefix pfx) (hden : Denotes reg ctx pfx t) (ht : (processAll reg opts plug).forest.tree? t = some root)
    (hmem : (p, x) ∈ nodes root) (hne : p ≠ []) :
    find reg (processAll reg opts plug).forest start ctx (absPath pfx p) =
      (some (t, p), (processAll reg opts plug).forest) ∧
    nodeAt (processAll reg opts plug).forest (t, p) = some x :=
  C17.find_abs_roundtrip_nodes reg _ (wfForest_processAll reg opts plug hL hnp hclean) start ctx pfx t root p x hp hden
    ht hmem hne

/-- **Relative round trip**: between any two nodes of one tree of the forest of an error-free
`processAll`, the relative path leads from the one to exactly the other and changes nothing. -/
theorem find_rel_roundtrip_processAll (reg : Registry) (opts : Opts) (plug : Plug) (hL : LoadedShape reg)
    (hnp : NamesPlain reg) (hclean : (processAll reg opts plug).errors = [])
    (ctx t : Nat) (a b : Path) (xa xb : Entry)
    (ha : nodeAt (processAll reg opts plug).forest (t, a) = some xa)
    (hb : nodeAt (processAll reg opts plug).forest (t, b) = some xb) :
    find reg (processAll reg opts plug).forest (t, a) ctx (relPath a b) =
      (some (t, b), (processAll reg opts plug).forest) :=
  C17.find_rel_roundtrip reg _ (wfForest_processAll reg opts plug hL hnp hclean) ctx t a b xa xb ha hb

/-- The general relative form: any number of `..` up to any common ancestor, then any spelling of
the steps down. -/
theorem find_rel_roundtrip_spelled_processAll (reg : Registry) (opts : Opts) (plug : Plug) (hL : LoadedShape reg)
    (hnp : NamesPlain reg) (hclean : (processAll reg opts plug).errors = [])
    (ctx t : Nat) (c ra rb : Path) (dparts : List String) (xa xb : Entry)
    (ha : nodeAt (processAll reg opts plug).forest (t, c ++ ra) = some xa)
    (hb : nodeAt (processAll reg opts plug).forest (t, c ++ rb) = some xb)
    (hd : Spells dparts rb) (hne : List.replicate ra.length ".." ++ dparts ≠ []) :
    find reg (processAll reg opts plug).forest (t, c ++ ra) ctx (renderRel (List.replicate ra.length ".." ++ dparts)) =
      (some (t, c ++ rb), (processAll reg opts plug).forest) :=
  C17.find_rel_roundtrip_spelled reg _ (wfForest_processAll reg opts plug hL hnp hclean) ctx t c ra rb dparts xa xb
    ha hb hd hne

/-! ### non-vacuity: C04's example module (grouping + uses, a choice with a shorthand member) -/
section Examples
open Goyang.Props.C04.Ex

example : LoadedShape reg1 ∧ NamesPlain reg1 ∧ (processAll reg1 {} plug).errors = [] := by decide +kernel

/-- The conclusion evaluated by the kernel, independently of the proof. -/
example : wfForest (processAll reg1 {} plug).forest = true := by decide +kernel

/-- The input predicate excludes what D17-L1 documents: names with `/`, `:`, `..`. -/
example : nameStmtOK (st 1 "leaf" "a/b") = false ∧ nameStmtOK (st 1 "container" "..") = false ∧
    nameStmtOK (st 1 "leaf" "p:x") = false ∧ nameStmtOK (st 1 "leaf" "") = false ∧
    nameStmtOK (st 1 "leaf" "ok-name_1.2") = true ∧ nameStmtOK (st 1 "augment" "/a:c") = true := by decide

/-- Prefix `a` denotes module `a` (tree 0) in module `a`. -/
theorem reg1_denotes : Denotes reg1 0 "a" 0 :=
  ⟨⟨0, modA⟩, ⟨0, modA⟩, ⟨0, modA⟩, by rfl, by rfl, by rfl, rfl⟩

/-- A round trip in the forest `processAll` returns for it: `/a:c/a:ch/a:y/a:y` — the leaf inside the
implicit case that `FixChoice` put around the shorthand choice member — found from the tree root. -/
example : find reg1 (processAll reg1 {} plug).forest (0, []) 0 (absPath "a" [.child "c", .child "ch", .child "y", .child "y"]) =
    (some (0, [.child "c", .child "ch", .child "y", .child "y"]), (processAll reg1 {} plug).forest) := by
  have hs : (nodeAt (processAll reg1 {} plug).forest (0, [.child "c", .child "ch", .child "y", .child "y"])).isSome = true := by
    decide +kernel
  obtain ⟨x, hx⟩ := Option.isSome_iff_exists.mp hs
  exact find_abs_roundtrip_processAll reg1 {} plug (by decide +kernel) (by decide +kernel) (by decide +kernel)
    _ 0 "a" 0 _ x ⟨by decide, by decide, by decide⟩ reg1_denotes (by simp) hx

/-- … and the relative path from the grouping's leaf `x` to it: `../ch/y/y`. -/
example : find reg1 (processAll reg1 {} plug).forest (0, [.child "c", .child "x"]) 0
      (relPath [.child "c", .child "x"] [.child "c", .child "ch", .child "y", .child "y"]) =
    (some (0, [.child "c", .child "ch", .child "y", .child "y"]), (processAll reg1 {} plug).forest) := by
  have hs : (nodeAt (processAll reg1 {} plug).forest (0, [.child "c", .child "x"])).isSome = true ∧
      (nodeAt (processAll reg1 {} plug).forest (0, [.child "c", .child "ch", .child "y", .child "y"])).isSome = true := by
    decide +kernel
  obtain ⟨xa, hxa⟩ := Option.isSome_iff_exists.mp hs.1
  obtain ⟨xb, hxb⟩ := Option.isSome_iff_exists.mp hs.2
  exact find_rel_roundtrip_processAll reg1 {} plug (by decide +kernel) (by decide +kernel) (by decide +kernel)
    0 0 _ _ xa xb hxa hxb

end Examples

end Goyang.Props.C17Bridge
