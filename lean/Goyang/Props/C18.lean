import Goyang.Lemmas.Session
import Goyang.Model.TypesLite
/-
Property C18: re-processing, incremental loading and failed loads do not skew results.

The machine is `Goyang.Model.Session` (one `yang.Modules` value: `load` = `Modules.Parse` of a raw
text - generic parser, AST builder and registry of the model, `loadText` - or of statement trees
with the front end's verdict as a flag; `process` = `Modules.Process`; `read` =
`ToEntry(…).Find(…)`), the reference is
`Goyang.Spec.Session` (batch run of the good texts on a fresh set; indistinguishable states).
All statements are for every history, every start state where one is mentioned, every plug-in
of the type / identity layers and every option setting.

WHAT THE THEOREMS ASSUME, AND WHICH RUNNER CHECK COVERS IT.  In the model `process` is
`processAll reg opts (plug reg)`, a pure function of the registry; the Go `Modules` value carries more.
Each theorem is about the real code only as far as the runner (harness/cmd/corr-c18) confirms, on
histories executed on ONE `Modules` value, that this extra state is transparent:

  theorem                    | Go state assumed transparent                        | runner check
  ---------------------------+-----------------------------------------------------+---------------------------------
  process_idempotent         | entryCache, mergedSubmodule, includes, byNS (reset   | histories with `process process`
                             | by hand at the top of Process); Type.YangType /     | and `process read process`: 2nd
                             | Typedef.YangType / Type.resolveErrs memo (D30);     | dump = 1st dump = batch dump =
                             | Identity.Values (appended to, then rebuilt as a     | model dump (extended Go dump:
                             | de-duplicated closure: D55); identity dictionary    | resolved types, identity values)
  incremental_eq_batch,      | all of the above across a CHANGED registry: memoised| after every `process`: dump on
  process_outcome,           | types and errors of an earlier run (D44), Import/   | the one value = dump of a batch
  load_order_of_accepted_only| Include `.Module` links and identity dictionary     | run of the accepted texts on a
                             | entries of an earlier run (D46), value lists of     | fresh Modules (Go vs Go, a
                             | identities that lost their key (D55), typeDict.dict,| violation by itself) = model
                             | Modules/SubModules/unrevisioned maps                |
                             | the same through Modules.GetModule (processes on    | `getmodule` operations (on demand
                             | demand: a "nothing to do" shortcut must see loads:  | after loads, repeatedly, touched /
                             | seeded change C18-l21); links of imports / includes | untouched modules): returned tree =
                             | PINNED by revision-date after a run that fell back  | a fresh set's; pinned revision
                             | to another revision (seeded change C18-l22)         | arriving after a run (`pinned/`)
  failed_load_no_trace       | typeDict.dict (typedefs of nested scopes register   | bad texts with ONE late fault,
                             | while the AST is built: D31), name maps after a     | exact duplicates, two-module
                             | partial add (D32), `mod.Modules` back pointer       | texts whose second module is
                             | entryCache = the processed trees, links, identity   | rejected, then more operations;
                             | value lists ACROSS a refused text whose earlier      | texts of 2-4 statements refused
                             | statements had registered (a cache dropped in `add` | at the LAST one (new module, newer
                             | is not brought back by restoreNames: seeded change  | revision, submodule registered
                             | C18-i22; statically: Props/C18State, stray writer)  | before), then the READ BATTERY
                             |                                                     | (ToEntry of everything, GetErrors,
                             |                                                     | identity values, Find) on the value
                             |                                                     | and on a shadow value that never
                             |                                                     | saw the refused texts, before the
                             |                                                     | next Process; `read` vs the model
                             | ANYTHING kept between texts that a failing text can | every refused offer is also put to
                             | leave dirty (a parser with its brace depth: seeded   | a FRESH value that took the accepted
                             | change C18-m22)                                      | operations: same answer (accepted /
                             |                                                     | refused, same (position, class))
                             | ms.Path and pathMap, the duplicate table of AddPath | FILE histories (`files/`): Read by
                             | (Modules.Read puts the directory of a file on the   | path / name, AddPath, files that
                             | path before Parse sees the text: a roll back of one | appear, imports found through the
                             | of the two only is seeded change C18-m21; the        | path only, vs the same history
                             | tree used to roll back neither: D18-P1, found by    | without the refused loads: path,
                             | the file histories, repaired in /repo 2488dfd);     | later offers, errors, trees, lookups
                             | outside the machine, Go vs Go only                  | after every operation
  incremental_eq_batch       | the type generation across a run that could NOT     | FILE histories: a run with a missing
                             | link (memoised "unknown prefix" must not survive:   | import, then the path grows / the
                             | seeded change C09-m22)                              | file appears, a run = a fresh set's
  read_no_trace              | entryCache entries and memoised types / errors made | ToEntry / Find / GetErrors walks
                             | by ToEntry before a Process (D45), rpc input/output | between operations; later dumps
                             | created lazily by Find                              | must equal batch and model

(D30-D32, D44-D46, D55, D18-P1: the ways in which the unchanged tree was NOT transparent; all repaired in
/repo, the witnesses are corpus/C18/*.json.  DESIGN.md section 8, known_findings.txt.)

PROVED SINCE (proof round 5, Props/C18Cached.lean): the layer between this machine and the Go value.
`Goyang.Model.SessionCached` is a stateful machine in which entry cache, links, identity tables,
generation counter + stamped per-type memo and the snapshot / restore around a refused load persist
between operations; `cached_refines_session` shows that under the reset discipline (a decidable
predicate over the regenerated inventory Gen/State.lean, evaluated on the current one) it answers
every history as the machine below does, and `cached_process_outcome` carries `process_outcome` over
to it.  What the table above calls "assumed transparent" is thereby reduced to: the Go functions
compute what the pure functions of that machine compute and store nothing else (runner), and the
inventory is a faithful reading of the source (translator).
-/
namespace Goyang.Props.C18
open Goyang.Model Goyang.Model.Session Goyang.Spec.Session Goyang.Lemmas.Session

/-! ### processing twice -/

/-- Processing twice gives the same answer twice, equal to processing once, and leaves the same
state: for every history `h` from every state. -/
theorem process_idempotent (plug : Registry → Plug) (s : Session) (h : List Op) :
    (runFrom plug s (h ++ [.process, .process])).1 = (runFrom plug s (h ++ [.process])).1 ∧
    ∃ o, (runFrom plug s (h ++ [.process])).2 = (runFrom plug s h).2 ++ [o] ∧
         (runFrom plug s (h ++ [.process, .process])).2 = (runFrom plug s h).2 ++ [o, o] := by
  refine ⟨?_, .processed (processAll (runFrom plug s h).1.reg (runFrom plug s h).1.opts (plug (runFrom plug s h).1.reg)), ?_, ?_⟩
  · simp only [runFrom_append, runFrom_cons, runFrom_nil, step_process]
  · simp only [runFrom_append, runFrom_cons, runFrom_nil, step_process]
  · simp only [runFrom_append, runFrom_cons, runFrom_nil, step_process]

/-! ### a failed load leaves no trace -/

/-- A rejected load (`Parse` returned an error: parser, AST builder or `add`) leaves the state
*equal* to the state before. -/
theorem failed_load_state_eq (plug : Registry → Plug) (s : Session) (src : Src) (w : Reject)
    (h : (step plug s (.load src)).2 = .rejected w) : (step plug s (.load src)).1 = s :=
  step_rejected_state plug s src w h

/-- … so no later history of loads, processing runs and reads can tell the two apart. -/
theorem failed_load_indistinguishable (plug : Registry → Plug) (s : Session) (src : Src) (w : Reject)
    (h : (step plug s (.load src)).2 = .rejected w) :
    Indistinguishable plug (step plug s (.load src)).1 s := by
  intro later
  rw [failed_load_state_eq plug s src w h]

/-- A load anywhere in a history that is answered `rejected`: cutting it out of the history
changes neither any other answer nor the final state — the set behaves, for every later load,
processing run and read, exactly as if the failed text had never been offered. -/
theorem failed_load_no_trace (plug : Registry → Plug) (s : Session) (pre post : List Op) (src : Src) (w : Reject)
    (h : (runFrom plug s (pre ++ .load src :: post)).2[pre.length]? = some (.rejected w)) :
    (runFrom plug s (pre ++ .load src :: post)).1 = (runFrom plug s (pre ++ post)).1 ∧
    (runFrom plug s (pre ++ .load src :: post)).2.eraseIdx pre.length = (runFrom plug s (pre ++ post)).2 := by
  have hl : (runFrom plug s pre).2.length = pre.length := runFrom_length plug s pre
  rw [runFrom_append, runFrom_cons] at h
  simp only [List.getElem?_append_right (Nat.le_of_eq hl), hl, Nat.sub_self, List.getElem?_cons_zero,
    Option.some.injEq] at h
  have hs := step_rejected_state plug (runFrom plug s pre).1 src w h
  constructor
  · rw [runFrom_append, runFrom_cons, runFrom_append, hs]
  · rw [runFrom_append, runFrom_cons, runFrom_append, hs]
    simp only [List.eraseIdx_append_of_length_le (Nat.le_of_eq hl), hl, Nat.sub_self, List.eraseIdx_cons_zero]

/-! ### incremental loading = batch loading of the accepted texts -/

/-- The registry a history leaves behind is the one obtained by loading, in order, exactly the
texts whose load the caller saw accepted; rejected texts, processing runs and reads do not enter. -/
theorem load_order_of_accepted_only (plug : Registry → Plug) (opts : Opts) (h : List Op) :
    (after plug opts h).reg = loadSrcs (goodTexts plug opts h) ∧ (after plug opts h).opts = opts :=
  ⟨runFrom_reg plug { opts := opts } h, runFrom_opts plug { opts := opts } h⟩

/-- Offered as a batch to a fresh set, the good texts of a history are all accepted, in their
order, and are their own good texts. -/
theorem good_texts_batch (plug : Registry → Plug) (opts : Opts) (h : List Op) :
    run plug opts (loads (goodTexts plug opts h)) = (goodTexts plug opts h).map (fun _ => Out.accepted) ∧
    (after plug opts (loads (goodTexts plug opts h))).reg = (after plug opts h).reg :=
  have := batch_replays plug h { opts := opts } { opts := opts } rfl
  ⟨this.2, this.1⟩

/-- Every `process` answer in a history is `processAll` of the registry obtained by loading, in
order, exactly the accepted texts that precede it. -/
theorem process_outcome (plug : Registry → Plug) (opts : Opts) (pre post : List Op) :
    (run plug opts (pre ++ .process :: post))[pre.length]? =
      some (.processed (processAll (loadSrcs (goodTexts plug opts pre)) opts (plug (loadSrcs (goodTexts plug opts pre))))) := by
  have hl : (runFrom plug { opts := opts } pre).2.length = pre.length := runFrom_length plug _ pre
  have hr := (load_order_of_accepted_only plug opts pre)
  simp only [after] at hr
  simp only [run, runFrom_append, runFrom_cons, List.getElem?_append_right (Nat.le_of_eq hl), hl, Nat.sub_self,
    List.getElem?_cons_zero, step_process, hr.1, hr.2]

/-- Loading more texts after processing runs (and failed loads, and reads) and processing again
answers exactly what the batch run of the good texts on a fresh set answers. -/
theorem incremental_eq_batch (plug : Registry → Plug) (opts : Opts) (h : List Op) :
    (run plug opts (h ++ [.process])).getLast? = batch plug opts (goodTexts plug opts h) ∧
    batch plug opts (goodTexts plug opts h) =
      some (.processed (processAll (loadSrcs (goodTexts plug opts h)) opts (plug (loadSrcs (goodTexts plug opts h))))) := by
  have hb := good_texts_batch plug opts h
  have hr := load_order_of_accepted_only plug opts h
  simp only [after] at hb hr
  have e1 : (run plug opts (h ++ [.process])).getLast? =
      some (.processed (processAll (loadSrcs (goodTexts plug opts h)) opts (plug (loadSrcs (goodTexts plug opts h))))) := by
    simp only [run, runFrom_append, runFrom_cons, runFrom_nil, step_process, List.getLast?_append, List.getLast?_singleton,
      Option.some_or, hr.1, hr.2]
  have e2 : batch plug opts (goodTexts plug opts h) =
      some (.processed (processAll (loadSrcs (goodTexts plug opts h)) opts (plug (loadSrcs (goodTexts plug opts h))))) := by
    simp only [batch, run, runFrom_append, runFrom_cons, runFrom_nil, step_process, List.getLast?_append,
      List.getLast?_singleton, Option.some_or, hb.2, runFrom_opts, hr.1]
  exact ⟨e1.trans e2.symm, e2⟩

/-- What loading a good source does to the registry, in terms of the two loaders of the resolver
pipeline: a raw text is loaded by `loadText` (Load.lean: parser, AST builder, registry), a text
given as statement trees by `loadFile` (Pipeline.lean). -/
theorem good_source_is_pipeline_load (reg : Registry) :
    (∀ name text, loadSrc reg (.text name text) = (loadText reg name text).1) ∧
    (∀ f, (∃ r, tryLoad reg f = .ok r) → loadSrc reg (.stmts f true) = loadFile reg f) :=
  ⟨loadSrc_text reg, loadSrc_stmts reg⟩

/-- The Lean front end leaves the registry alone unless it answers `accepted`. -/
theorem text_rejected_registry_unchanged (reg : Registry) (name text : List UInt8)
    (h : (loadText reg name text).2 ≠ .accepted) : (loadText reg name text).1 = reg :=
  loadText_rejected_reg reg name text h

/-! ### reads -/

/-- Reads interleaved anywhere in a history change no answer to a `load` or a `process`, and not
the registry reached (they do write the entry cache, as `Find` does in Go when it creates the
absent input / output of an rpc; `process` rebuilds that cache from nothing). -/
theorem read_no_trace (plug : Registry → Plug) (opts : Opts) (h : List Op) :
    (run plug opts h).filter (fun o => !o.isReadOut) = run plug opts (h.filter fun op => !op.isRead) ∧
    (after plug opts h).reg = (after plug opts (h.filter fun op => !op.isRead)).reg :=
  runFrom_skip_reads plug h { opts := opts } { opts := opts } rfl rfl

/-! ### non-vacuity: a history with a rejected duplicate and a rejected bad text between two
processing runs, and a read -/

section Examples

private def plug0 : Registry → Plug := fun _ => { tres := typesLite, identityErrs := fun _ => [], typedefErrs := fun _ => [] }

private def st (file kw arg : String) (l : Nat) (subs : List Stmt := []) : Stmt := .mk kw true arg file l 1 subs

private def textA : SrcFile :=
  { name := "a.yang",
    stmts := [st "a.yang" "module" "a" 1 [st "a.yang" "namespace" "urn:a" 2, st "a.yang" "prefix" "a" 3,
      st "a.yang" "container" "c" 4 [st "a.yang" "leaf" "x" 5 [st "a.yang" "type" "string" 6]]]] }

private def textB : SrcFile :=
  { name := "b.yang",
    stmts := [st "b.yang" "module" "b" 1 [st "b.yang" "namespace" "urn:b" 2, st "b.yang" "prefix" "b" 3,
      st "b.yang" "import" "a" 4 [st "b.yang" "prefix" "a" 5],
      st "b.yang" "augment" "/a:c" 6 [st "b.yang" "leaf" "y" 7 [st "b.yang" "type" "int8" 8]]]] }

/-- one text with two modules, the second a duplicate of the loaded `a` (the D32 shape) -/
private def textTwo : SrcFile :=
  { name := "two.yang",
    stmts := [st "two.yang" "module" "z" 1 [st "two.yang" "namespace" "urn:z" 2, st "two.yang" "prefix" "z" 3]] ++ textA.stmts }

/-- a text the builder rejected (its content does not matter to the machine) -/
private def textBad : SrcFile := { name := "bad.yang", stmts := [st "bad.yang" "module" "q" 1] }

private def hist : List Op :=
  [.read "a" "/a:c", .load (.stmts textA true), .read "a" "/a:c/a:x", .process, .load (.stmts textA true),
   .load (.stmts textBad false), .load (.stmts textTwo true), .read "nosuch" "/a:c", .load (.stmts textB true), .process]

/-- What the caller saw of each load: the name of the text and whether it was accepted. -/
private def loadAnswers (h : List Op) (outs : List Out) : List (String × Bool) :=
  (h.zip outs).filterMap fun (op, o) =>
    match op with
    | .load (.stmts f _) => some (f.name, match o with | .accepted => true | _ => false)
    | _ => none

/-- The history does what its name says: the duplicate, the bad text and the two-module text are
rejected between the two processing runs. -/
example : loadAnswers hist (run plug0 {} hist) =
    [("a.yang", true), ("a.yang", false), ("bad.yang", false), ("two.yang", false), ("b.yang", true)] := by decide

/-- Its good texts are exactly the two accepted ones, in order. -/
example : (goodTexts plug0 {} hist).map (fun | .stmts f _ => f.name | .text _ _ => "") = ["a.yang", "b.yang"] := by decide

/-- The hypothesis of `failed_load_no_trace` is met at position 4 (duplicate), 5 (bad text) and
6 (two modules, the second rejected: the first one, `z`, is not left behind). -/
example : ∃ w, (runFrom plug0 {} hist).2[4]? = some (.rejected w) := ⟨_, rfl⟩
example : ∃ w, (runFrom plug0 {} hist).2[5]? = some (.rejected w) := ⟨_, rfl⟩
example : ∃ w, (runFrom plug0 {} hist).2[6]? = some (.rejected w) := ⟨_, rfl⟩
example : ((after plug0 {} hist).reg.getModule "z").isNone = true := by decide
example : ((after plug0 {} hist).reg.getModule "b").isSome = true := by decide

/-- The reads of the history are answered (of a module that is not there: nothing; before any
`Process`: not from a finished run). -/
example : (runFrom plug0 {} hist).2[0]? = some .noModule := rfl
example : (runFrom plug0 {} hist).2[2]? = some .unprocessed := rfl
example : (runFrom plug0 {} hist).2[7]? = some .noModule := rfl

/-- The statement-level sources above satisfy the hypothesis of `good_source_is_pipeline_load`. -/
example : ∃ r, tryLoad {} textA = .ok r := ⟨_, rfl⟩

/-! The same with raw texts: parser, AST builder and registry of the model decide. -/

private def b (s : String) : List UInt8 := s.toUTF8.toList

private def rawA := b "module a { namespace \"urn:a\"; prefix a; container c { leaf x { type string; } } }"
private def rawB := b "module b { namespace \"urn:b\"; prefix b; import a { prefix a; } augment \"/a:c\" { leaf y { type int8; } } }"
/-- one late fault (an unknown substatement in the last statement) after a nested scope whose
typedef cannot be resolved: the D31 shape -/
private def rawLate := b "module n { namespace \"urn:n\"; prefix n; container c { typedef t { type nosuch; } leaf u { type t; } } leaf l { type string; frobnicate 1; } }"
private def rawSyntax := b "module q { namespace \"urn:q\"; prefix q; leaf l { type string; }"
private def rawTwo := b "module z { namespace \"urn:z\"; prefix z; } module a { namespace \"urn:a\"; prefix a; }"
private def rawTrail := b "module z { namespace \"urn:z\"; prefix z; } container t { leaf q { type string; } }"

private def histT : List Op :=
  [.load (.text (b "a.yang") rawA), .process, .load (.text (b "a-again.yang") rawA), .load (.text (b "n.yang") rawLate),
   .load (.text (b "q.yang") rawSyntax), .load (.text (b "two.yang") rawTwo), .load (.text (b "trail.yang") rawTrail),
   .load (.text (b "b.yang") rawB), .process]

private def tagT : Out → String
  | .accepted => "accepted"
  | .rejected (.text .rejectedSyntax) => "syntax"
  | .rejected (.text .rejectedBuild) => "build"
  | .rejected (.text .rejectedTop) => "top"
  | .rejected (.text .rejectedAdd) => "add"
  | _ => "other"

private def loadTags (h : List Op) (outs : List Out) : List String :=
  (h.zip outs).filterMap fun (op, o) => match op with | .load _ => some (tagT o) | _ => none

/-- Duplicate, late fault, syntax error, two modules with a duplicate second one and a trailing
non-module node are all rejected by the model itself, between two processing runs. -/
example : loadTags histT (run plug0 {} histT) = ["accepted", "add", "build", "syntax", "add", "top", "accepted"] := by
  decide +kernel

/-- … and the module `z` of the two rejected two-statement texts is not left behind (D32). -/
example : ((after plug0 {} histT).reg.getModule "z").isNone = true := by decide +kernel

/-- The hypothesis of `text_rejected_registry_unchanged` on a concrete text. -/
example : (loadText {} (b "n.yang") rawLate).2 ≠ .accepted := by
  intro h
  have : ((loadText {} (b "n.yang") rawLate).2 == .rejectedBuild) = true := by decide +kernel
  rw [h] at this
  cases this

/- What the two processing runs answer (and that they differ: the second sees the augment of `b`
in the tree of `a`) is not evaluated in the kernel; the same histories are
corpus/C18/example-history.json and example-history-texts.json of the correspondence runner, where the answers of the compiled
model are compared with those of the real code. -/

end Examples

end Goyang.Props.C18
