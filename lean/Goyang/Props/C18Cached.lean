import Goyang.Props.C18
import Goyang.Gen.State
import Goyang.Lemmas.SessionCachedReal
import Goyang.Lemmas.SessionCachedToy
/-
Property C18, the layer between the session model and the Go value: a STATEFUL machine in which the
derived state a `yang.Modules` value keeps between calls is explicit, and the proof that it cannot be
told from the machine that recomputes.

The theorems of Props/C18.lean are about `Goyang.Model.Session`, where `process` is by construction
`processAll reg opts (plug reg)`.  The Go value caches.  `Goyang.Model.SessionCached` (see the table at
the top of that file) keeps, from one operation to the next: the entry cache (filled by `process` AND
by a `read` = ToEntry with no run before it, emptied by `clear` and at the top of `process`, left alone
by `load` - Go's `add` / `Parse` never write it), the link tables and the visited set of `include`,
the identity tables, the generation counter and the memo of resolved types stamped with the
generation that made them, and the snapshot / restore of the name tables around a refused text.
WHAT it stores are results of the same pure functions the session model uses (a `Kit`; for the real
resolver `realKit plug`: `linkAll`, the passes of `plug reg`, `processAll` re-stated with the link
phase as a parameter, `find`); what it ADDS is when a stored result is reused instead of recomputed.
What the value does about each piece at the start of a run is a `Policy`; `Policy.ofTable` reads it
off a field table of the shape of `Goyang.Gen.State.table` (regenerated from the Go source by
harness/cmd/extract-state on every run), and `ResetDiscipline table` says every flag is on.

  theorem                           | says
  ----------------------------------+---------------------------------------------------------------------
  reset_discipline_holds            | the CURRENT regenerated table satisfies the discipline (kernel evaluation)
  cached_refines_pure               | any kit with the three size laws, any table with the discipline, any
                                    |   start registry, any history of load (accepted or refused) / process /
                                    |   read / clear: the cached machine answers what the recomputing machine
                                    |   answers (a read the latter declines - no finished run, or texts accepted
                                    |   since: outside the contract "Process first" - may be answered anyhow),
                                    |   and ends coherent with it (same registry and options; `Coh`)
  cached_refines_from_coherent      | the same from ANY pair of coherent states (not only a fresh value)
  cached_refines_session            | the same for the real resolver against `Goyang.Model.Session` itself
  cached_answers_as_session         | ... position by position as an equation
  cached_process_outcome            | every Process answer of the CACHED machine, in any history, is `processAll`
                                    |   of the registry obtained by loading exactly the texts accepted before it
                                    |   (C18.process_outcome carried over: incremental = batch for the stateful value)
  cached_process_idempotent,        | C18.process_idempotent / read_no_trace / failed_load_no_trace carried over to the
  cached_read_no_trace,             |   stateful value - where a read DOES write hidden state (entry cache, memo
  cached_failed_load_no_trace       |   entries with the current stamp) and a second run DOES find what the first left;
                                    |   the last one for every kit and including the answers of reads outside the contract
  cached_failed_load_state_eq       | a refused load leaves the whole hidden state as it was
  forgot_clear_entry_cache_fails,   | the same machine with ONE reset dropped does not refine: a concrete
  forgot_generation_guard_fails,    |   history on the toy kit, by kernel evaluation (entry cache not emptied at
  forgot_generation_bump_fails,     |   the top of Process; memo used without the generation test: D30/D44; counter
  forgot_relink_fails,              |   not incremented, so what a ToEntry before Process resolved is a hit: D45;
  forgot_restore_fails              |   stale links: D46; name tables not restored: D32)
  broken_table_gives_broken_policy  | a table in which one of those fields lost its reset (the shapes C18State
                                    |   rejects) yields exactly the refuted policy

What stays abstract / is not proved here: that the Go functions compute what the kit's functions
compute (the correspondence runner), that the table is a faithful reading of the source (the
translator), granularity (links, identity tables and the entry cache are reused as a whole; the type
memo is per type statement, keyed in the real kit by the identity of the AST node - module and
position - as Go keeps it in the node), what Go converts on the fly outside the contract
(`earlyRead`: a parameter; a dummy in the real kit, never compared), and operations the session
model does not have (GetModule = a run, as in the runner; option changes; Read / the search path).
-/
namespace Goyang.Props.C18Cached
open Goyang.Model Goyang.Model.SessionCached Goyang.Model.StateInv
open Goyang.Lemmas.SessionCached Goyang.Lemmas.SessionCachedReal Goyang.Lemmas.SessionCachedToy

/-! ### the discipline, and the table regenerated from the source -/

/-- The inventory regenerated from the current source satisfies the reset discipline: entry cache,
merged-submodule table, links, visited set, namespace answers, identity dictionary and value lists
are reset completely at the start of `Process`, the counter is incremented there, every memo of a
resolved type is generation-guarded, none of them has a storing writer outside its pinned functions,
and the table lists no derived field beside these (the machine models all of them). -/
theorem reset_discipline_holds : ResetDiscipline Goyang.Gen.State.table = true := by decide +kernel

/-- ... so the policy read off the table is the all-on policy. -/
theorem policy_of_current_table : Policy.ofTable Goyang.Gen.State.table = {} := by decide +kernel

/-! ### the refinement -/

/-- Cache coherence, for every kit: under the reset discipline the cached machine cannot be told
from the recomputing one by any history from a fresh value. -/
theorem cached_refines_pure (K : Kit) (hl : Laws K) (t : List Field) (ht : ResetDiscipline t = true)
    (reg : K.Reg) (opts : K.Opts) (h : List (SessionCached.Op K)) :
    AgreeAll (prunFrom K { reg := reg, opts := opts } h).2 (crunFrom K (Policy.ofTable t) { reg := reg, opts := opts } h).2 ∧
    (crunFrom K (Policy.ofTable t) { reg := reg, opts := opts } h).1.abs =
      ((prunFrom K { reg := reg, opts := opts } h).1.reg, (prunFrom K { reg := reg, opts := opts } h).1.opts) ∧
    Coh (prunFrom K { reg := reg, opts := opts } h).1 (crunFrom K (Policy.ofTable t) { reg := reg, opts := opts } h).1 := by
  have := run_refines K hl (Policy.ofTable t) (ResetDiscipline.sound ht) h _ _ (coh_init K reg opts)
  refine ⟨this.2, ?_, this.1⟩
  unfold CState.abs
  rw [this.1.reg, this.1.opts]

/-- ... and from any two states that are coherent (`Coh`: same registry and options, no memo stamp
beyond the generation, and the trees the pure machine would answer from are those in the entry
cache unless texts were accepted since): coherence is an invariant. -/
theorem cached_refines_from_coherent (K : Kit) (hl : Laws K) (t : List Field) (ht : ResetDiscipline t = true)
    (s : PState K) (c : CState K) (hc : Coh s c) (h : List (SessionCached.Op K)) :
    AgreeAll (prunFrom K s h).2 (crunFrom K (Policy.ofTable t) c h).2 ∧
    Coh (prunFrom K s h).1 (crunFrom K (Policy.ofTable t) c h).1 :=
  have := run_refines K hl (Policy.ofTable t) (ResetDiscipline.sound ht) h s c hc
  ⟨this.2, this.1⟩

/-- Coherent pairs that are not fresh exist: the states after a run followed by a read. -/
example : Coh (prunFrom toy { reg := [], opts := () } [.load [1], .process, .read 1 0]).1
    (crunFrom toy {} { reg := [], opts := () } [.load [1], .process, .read 1 0]).1 :=
  (run_refines toy toy_laws {} rfl _ _ _ (coh_init toy [] ())).1

/-- The cached machine of the real resolver, with the policy of the current table, on a fresh value. -/
def cachedRun (plug : Registry → Plug) (opts : Opts) (h : List Goyang.Model.Op) :
    CState (realKit plug) × List (SessionCached.Out (realKit plug)) :=
  crunFrom (realKit plug) (Policy.ofTable Goyang.Gen.State.table) { reg := ({} : Registry), opts := opts } (h.map (embOp plug))

/-- The cached machine refines `Goyang.Model.Session`: for every history of loads (accepted and
refused), processing runs and reads on a fresh value, every plug-in of the type / identity layers
and every option setting, its answers are those of the session model (which declines reads outside
the contract), and it holds the registry and options the session model holds. -/
theorem cached_refines_session (plug : Registry → Plug) (opts : Opts) (h : List Goyang.Model.Op) :
    AgreeAll ((Session.run plug opts h).map (embOut plug)) (cachedRun plug opts h).2 ∧
    (cachedRun plug opts h).1.abs = ((Session.after plug opts h).reg, (Session.after plug opts h).opts) := by
  have h1 := cached_refines_pure (realKit plug) (laws_real plug) _ reset_discipline_holds ({} : Registry) opts (h.map (embOp plug))
  have h2 := prun_real plug h { opts := opts }
  have h3 : (toP plug ({ opts := opts } : Session)) = ({ reg := ({} : Registry), opts := opts } : PState (realKit plug)) := rfl
  rw [h3] at h2
  rw [h2] at h1
  exact ⟨h1.1, h1.2.1⟩

/-- Position by position: where the session model answers (anything but `unprocessed`), the cached
machine gives that answer. -/
theorem cached_answers_as_session (plug : Registry → Plug) (opts : Opts) (h : List Goyang.Model.Op) (i : Nat)
    (o : Goyang.Model.Out) (ho : (Session.run plug opts h)[i]? = some o) (hne : ∀ _ : o = .unprocessed, False) :
    (cachedRun plug opts h).2[i]? = some (embOut plug o) := by
  refine agreeAll_getElem? (cached_refines_session plug opts h).1 i (embOut plug o) ?_ ?_
  · rw [List.getElem?_map, ho]; rfl
  · intro e
    cases o <;> first | exact hne rfl | cases e

/-- Incremental = batch for the stateful value: every `Process` answer of the cached machine in any
history is `processAll` of the registry obtained by loading, in order, exactly the texts the caller
saw accepted before it - whatever runs, refused loads and reads (also reads before any run, which
fill the entry cache and the memo) came before. -/
theorem cached_process_outcome (plug : Registry → Plug) (opts : Opts) (pre post : List Goyang.Model.Op) :
    (cachedRun plug opts (pre ++ .process :: post)).2[pre.length]? =
      some (.processed (processAll (Session.loadSrcs (Goyang.Spec.Session.goodTexts plug opts pre)) opts
        (plug (Session.loadSrcs (Goyang.Spec.Session.goodTexts plug opts pre))))) :=
  cached_answers_as_session plug opts _ pre.length _ (Goyang.Props.C18.process_outcome plug opts pre post)
    (fun e => by cases e)

/-! The cached machine of the real kit runs: a text, the same text again (refused: duplicate), a read
before any run (answered on the fly - the session model declines it - and it parks one stamped memo
entry for the type statement it met), a read of a module that is not there. -/

section RealExample

private def plug0 : Registry → Plug := fun _ => { tres := typesLite, identityErrs := fun _ => [], typedefErrs := fun _ => [] }

private def st (file kw arg : String) (l : Nat) (subs : List Stmt := []) : Stmt := .mk kw true arg file l 1 subs

private def textA : SrcFile :=
  { name := "a.yang",
    stmts := [st "a.yang" "module" "a" 1 [st "a.yang" "namespace" "urn:a" 2, st "a.yang" "prefix" "a" 3,
      st "a.yang" "container" "c" 4 [st "a.yang" "leaf" "x" 5 [st "a.yang" "type" "string" 6]]]] }

private def histA : List Goyang.Model.Op :=
  [.load (.stmts textA true), .load (.stmts textA true), .read "a" "/a:c", .read "zz" "/a:c"]

private def tag : SessionCached.Out (realKit plug0) → String
  | .accepted => "accepted"
  | .rejected _ => "rejected"
  | .processed _ => "processed"
  | .found _ => "found"
  | .noModule => "noModule"
  | .unprocessed => "unprocessed"
  | .cleared => "cleared"

example : (cachedRun plug0 {} histA).2.map tag = ["accepted", "rejected", "found", "noModule"] := by decide +kernel
example : ((Session.run plug0 {} histA).map (embOut plug0)).map tag = ["accepted", "rejected", "unprocessed", "noModule"] := by
  decide +kernel
example : (cachedRun plug0 {} histA).1.memo.map (fun e => (e.1.2.2.2.line, e.2.1)) = [(6, 0)] := by decide +kernel
example : (cachedRun plug0 {} histA).1.extra.isSome = true := by decide +kernel

end RealExample

/-- A refused load leaves the whole hidden state of the cached machine - entry cache, links, identity
tables, generation, memo, name tables - equal to the state before. -/
theorem cached_failed_load_state_eq (K : Kit) (t : List Field) (ht : ResetDiscipline t = true) (c : CState K) (src : K.Src)
    (w : K.Rej) (h : (cstep K (Policy.ofTable t) c (.load src)).2 = .rejected w) :
    (cstep K (Policy.ofTable t) c (.load src)).1 = c := by
  rw [sound_eq (ResetDiscipline.sound ht)] at h ⊢
  exact cstep_rejected_state K c src w h

/-- A load anywhere in a history of the cached machine that is answered `rejected`: cutting it out of
the history changes no other answer - also not the answers of reads outside the contract, which the
session model declines and which show hidden state - and not the final state, hidden state
included.  (C18.failed_load_no_trace for the stateful value, for every kit.) -/
theorem cached_failed_load_no_trace (K : Kit) (t : List Field) (ht : ResetDiscipline t = true) (c : CState K)
    (pre post : List (SessionCached.Op K)) (src : K.Src) (w : K.Rej)
    (h : (crunFrom K (Policy.ofTable t) c (pre ++ .load src :: post)).2[pre.length]? = some (.rejected w)) :
    (crunFrom K (Policy.ofTable t) c (pre ++ .load src :: post)).1 = (crunFrom K (Policy.ofTable t) c (pre ++ post)).1 ∧
    (crunFrom K (Policy.ofTable t) c (pre ++ .load src :: post)).2.eraseIdx pre.length =
      (crunFrom K (Policy.ofTable t) c (pre ++ post)).2 := by
  rw [sound_eq (ResetDiscipline.sound ht)] at h ⊢
  exact crun_failed_load_no_trace K c pre post src w h

/-- The hypothesis is met: a text refused at its second statement, at position 1 of a history on the toy kit. -/
example : (crunFrom toy (Policy.ofTable Goyang.Gen.State.table) { reg := [], opts := () }
    ([SessionCached.Op.load [1]] ++ .load [2, 1] :: [.process])).2[1]? = some (.rejected 1) := by decide +kernel

/-- Processing twice: the cached machine answers the second run exactly as the first (C18.process_idempotent
for the stateful value: the second run finds the entry cache, links, identity tables and memo the
first one left). -/
theorem cached_process_idempotent (plug : Registry → Plug) (opts : Opts) (h : List Goyang.Model.Op) :
    ∃ o, (cachedRun plug opts (h ++ [.process, .process])).2[h.length]? = some (.processed o) ∧
         (cachedRun plug opts (h ++ [.process, .process])).2[h.length + 1]? = some (.processed o) := by
  have e1 := cached_process_outcome plug opts h [.process]
  have e2 := cached_process_outcome plug opts (h ++ [.process]) []
  have r1 := (Goyang.Props.C18.load_order_of_accepted_only plug opts h).1
  have r2 := (Goyang.Props.C18.load_order_of_accepted_only plug opts (h ++ [.process])).1
  have hr : (Session.after plug opts (h ++ [.process])).reg = (Session.after plug opts h).reg := by
    simp only [Session.after, Goyang.Lemmas.Session.runFrom_append, Goyang.Lemmas.Session.runFrom_cons,
      Goyang.Lemmas.Session.runFrom_nil, Goyang.Lemmas.Session.step_process]
  rw [r1, r2] at hr
  rw [List.append_assoc, List.singleton_append, List.length_append, List.length_singleton, hr] at e2
  exact ⟨_, e1, e2⟩

/-- Reads interleaved anywhere in a history change no answer of the cached machine to a `load` or a
`process` - although here they DO write hidden state (the entry cache, and memo entries stamped with
the current generation: the shape of D45).  (C18.read_no_trace for the stateful value.) -/
theorem cached_read_no_trace (plug : Registry → Plug) (opts : Opts) (h : List Goyang.Model.Op) :
    (cachedRun plug opts h).2.filter (fun o => !o.isReadOut) =
      (cachedRun plug opts (h.filter fun op => !op.isRead)).2 := by
  have a := agreeAll_filter (cached_refines_session plug opts h).1
  have b := agreeAll_filter (cached_refines_session plug opts (h.filter fun op => !op.isRead)).1
  have c : (cachedRun plug opts (h.filter fun op => !op.isRead)).2.filter (fun o => !o.isReadOut) =
      (cachedRun plug opts (h.filter fun op => !op.isRead)).2 := by
    refine crun_no_reads _ _ _ ?_ _
    intro op hop
    obtain ⟨op0, h0, rfl⟩ := List.mem_map.mp hop
    rw [embOp_isRead]
    have := (List.mem_filter.mp h0).2
    cases hr : op0.isRead with
    | false => rfl
    | true => rw [hr] at this; cases this
  have d := (Goyang.Props.C18.read_no_trace plug opts h).1
  rw [filter_map_embOut] at a b
  rw [← d, List.filter_filter] at b
  simp only [Bool.and_self] at b
  rw [a, ← c, b]

/-! ### every reset is needed: one flag off, and the machine does not refine

All on the toy kit (Lemmas/SessionCachedToy.lean), by kernel evaluation. -/

section Refutations

/-- module 1, a run, module 2, a run -/
private def hTwoRuns : List (SessionCached.Op toy) := [.load [1], .process, .load [2], .process]
/-- module 1, a read (ToEntry before any run: fills the entry cache and the memo), a run -/
private def hEarlyRead : List (SessionCached.Op toy) := [.load [1], .read 1 0, .process]
/-- module 1, a text with module 2 and then module 1 again (refused at its second statement), a run -/
private def hRefused : List (SessionCached.Op toy) := [.load [1], .load [2, 1], .process]
/-- everything: reads before, between and after runs, a refused text, `clear` -/
private def hMixed : List (SessionCached.Op toy) :=
  [.read 1 0, .load [1], .read 1 0, .process, .read 1 5, .load [2, 1], .read 2 0, .load [2], .read 1 1, .read 2 1,
   .process, .process, .read 2 7, .clear, .read 2 7, .process, .read 3 0]

/-- The entry cache not emptied at the top of `Process`: the second run answers with the trees of
the first. -/
theorem forgot_clear_entry_cache_fails :
    ¬ AgreeAll (pureAns hTwoRuns) (cachedAns { clearEntry := false } hTwoRuns) := by decide +kernel

/-- The memo used without the generation test (the tree before the repair of D30 / D44): the second
run takes the type of module 1 as resolved against the registry of the first. -/
theorem forgot_generation_guard_fails :
    ¬ AgreeAll (pureAns hTwoRuns) (cachedAns { genGuard := false } hTwoRuns) := by decide +kernel

/-- The counter not incremented by `Process` (D45): what a ToEntry BEFORE the run resolved - with no
links, no identities - carries the current stamp and is a hit in the run. -/
theorem forgot_generation_bump_fails :
    ¬ AgreeAll (pureAns hEarlyRead) (cachedAns { bumpGen := false } hEarlyRead) := by decide +kernel

/-- Links and the visited set kept across runs (D46): the second run resolves against the links of
the first. -/
theorem forgot_relink_fails :
    ¬ AgreeAll (pureAns hTwoRuns) (cachedAns { relink := false } hTwoRuns) := by decide +kernel

/-- The identity tables kept across runs (D55). -/
theorem forgot_identity_reset_fails :
    ¬ AgreeAll (pureAns hTwoRuns) (cachedAns { resetIdents := false } hTwoRuns) := by decide +kernel

/-- The name tables not put back when a text is refused at a later statement (D32): module 2 of the
refused text stays and the next run sees it. -/
theorem forgot_restore_fails :
    ¬ AgreeAll (pureAns hRefused) (cachedAns { restoreOnReject := false } hRefused) := by decide +kernel

/-- The same histories with every flag on agree (as `cached_refines_pure` says they must), and they
are not trivial: the two runs of `hTwoRuns` answer differently, the refused text is refused, reads
are answered. -/
example : AgreeAll (pureAns hTwoRuns) (cachedAns {} hTwoRuns) := by decide +kernel
example : AgreeAll (pureAns hEarlyRead) (cachedAns {} hEarlyRead) := by decide +kernel
example : AgreeAll (pureAns hRefused) (cachedAns {} hRefused) := by decide +kernel
example : AgreeAll (pureAns hMixed) (cachedAns {} hMixed) := by decide +kernel
example : pureAns hTwoRuns = [.accepted, .processed (14, 1), .accepted, .processed (58, 2)] := by decide +kernel
example : cachedAns { clearEntry := false } hTwoRuns = [.accepted, .processed (14, 1), .accepted, .processed (14, 1)] := by
  decide +kernel
example : pureAns hRefused = [.accepted, .rejected 1, .processed (14, 1)] := by decide +kernel
example : pureAns hMixed =
    [.noModule, .accepted, .unprocessed, .processed (14, 1), .found 20, .rejected 1, .noModule, .accepted, .unprocessed,
     .unprocessed, .processed (58, 2), .processed (58, 2), .found 67, .cleared, .unprocessed, .processed (58, 2), .noModule] := by
  decide +kernel

/-- The hypotheses of `cached_refines_pure` are satisfiable: the toy kit has the laws (and so has
the real kit: `laws_real`), the current table has the discipline. -/
example : Laws toy := toy_laws
example (plug : Registry → Plug) : Laws (realKit plug) := laws_real plug

end Refutations

/-! ### from the table to the policy: the broken tables C18State rejects give the refuted machines -/

section Tables

/-- the entry cache pruned instead of flushed at the start of Process (reset class `partly`) -/
private def prunedEntryCache : Field :=
  { owner := "Modules", name := "entryCache", type := "map[Node]*Entry", exported := false, allow := .derived,
    reset := .partly, reads := 1, writers := ["Modules.ClearEntryCache", "Modules.setEntryCache"], pinned := ["Modules.setEntryCache"] }

/-- a memo that is no longer generation-guarded (seeded change C09-b2) -/
private def lostStamp : Field :=
  { owner := "Typedef", name := "YangType", type := "*YangType", exported := true, allow := .derived,
    reset := .absent, reads := 3, writers := ["Typedef.resolve"], pinned := [] }

/-- the entry cache dropped on the load path (seeded change C18-i22): a stray writer -/
private def strayEntryCache : Field :=
  { owner := "Modules", name := "entryCache", type := "map[Node]*Entry", exported := false, allow := .derived,
    reset := .full, reads := 1, writers := ["Modules.ClearEntryCache", "Modules.setEntryCache"],
    pinned := ["Modules.setEntryCache"], stray := ["Modules.add -> Modules.ClearEntryCache"] }

/-- the counter no longer incremented -/
private def stuckCounter : Field :=
  { owner := "typeDictionary", name := "gen", type := "int", exported := false, allow := .derived, reset := .absent, reads := 4,
    writers := [], pinned := [] }

/-- a new cache that the allow-list calls derived and that IS flushed, but that the machine has no
component for -/
private def unmodelledCache : Field :=
  { owner := "Modules", name := "groupingCache", type := "map[groupingKey]*Grouping", exported := false, allow := .derived,
    reset := .full, reads := 2, writers := ["Modules.findGrouping", "Modules.Process"], pinned := ["Modules.findGrouping"] }

/-- A table in which one field lost its reset does not have the discipline, and the policy read off
it is exactly the machine refuted above. -/
theorem broken_table_gives_broken_policy :
    Policy.ofTable (prunedEntryCache :: Goyang.Gen.State.table) = { clearEntry := false } ∧
    Policy.ofTable (lostStamp :: Goyang.Gen.State.table) = { genGuard := false } ∧
    Policy.ofTable (stuckCounter :: Goyang.Gen.State.table) = { bumpGen := false } ∧
    ResetDiscipline (prunedEntryCache :: Goyang.Gen.State.table) = false ∧
    ResetDiscipline (lostStamp :: Goyang.Gen.State.table) = false ∧
    ResetDiscipline (stuckCounter :: Goyang.Gen.State.table) = false ∧
    ResetDiscipline (strayEntryCache :: Goyang.Gen.State.table) = false ∧
    ResetDiscipline (unmodelledCache :: Goyang.Gen.State.table) = false ∧
    ResetDiscipline [] = false := by decide +kernel

end Tables

end Goyang.Props.C18Cached
