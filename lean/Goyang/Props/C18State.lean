import Goyang.Model.StateInv
import Goyang.Gen.State
/-
Property C18, the static half of the tie between the session model and the code: every piece of
state a `yang.Modules` value carries between calls is accounted for.

The session model (Goyang/Model/Session.lean) carries the registry, the options and - for reads -
the outcome of the latest `process`; `process` recomputes everything else from the registry.  The
theorems of Props/C18.lean (idempotence, incremental = batch, no trace of a failed load) are about
that machine.  They speak about the Go value only if what the Go value keeps BESIDE the registry
cannot reach a later result.  The correspondence runner corr-c18 samples that dynamically (one
value vs batch on a fresh value vs model).  This file makes the inventory itself a proof
obligation over facts regenerated from the source on every run (harness/cmd/extract-state ->
Goyang/Gen/State.lean): a new cache, a dictionary that is no longer flushed, a memo that is no
longer generation-guarded makes `carried_state_justified` false before any history is run.

Which model component each derived field corresponds to (the model recomputes, the code caches;
"reset at the start of Process" is what makes the two agree):

  Go field (derived)                       | session / resolver model
  -----------------------------------------+---------------------------------------------------------------
  Modules.entryCache (+ every Entry, owned)| Session.cache = the Outcome of the latest `process`, rebuilt from
                                           |   nothing; inside one run ToEntry.TState.cache
  Modules.mergedSubmodule                  | ToEntry.TState.merged, empty at the start of every processAll
  Modules.includes                         | Process.includeWalk `visited`, recomputed by linkAll
  Import.Module, Include.Module            | Process.linkAll `linked` / Registry.findModule, recomputed
  Modules.byNS                             | Find.instantiatingModuleAt, recomputed from the registry per query
  identityDictionary.dict, Identity.Values | Identity.run: dictionary and value lists built from empty ones
  Type.YangType/resolveErrs,               | Types.resolveTypeE / resolveAllTypedefsE: functions, no memo;
  Typedef.YangType (+ YangType, owned)     |   the Go memo is valid for one generation = one Process
  typeDictionary.gen, *.resolvedGen        | (the generation scheme itself: nothing to model)
  call-scoped: Modules.entryInProgress,    | the `visiting` arguments of toEntry / resolveTypeE
  Type.resolving                           |
  registry: Modules.Modules/SubModules/    | Session.reg : Registry (modules, subModules, unrev*, mods)
  unrevisioned, Module.Modules,            |
  typeDictionary.dict                      | typedef lookup walks the statement trees of the registry
  config: Modules.ParseOptions, Path       | Session.opts (the search path is outside the machine)

What "reset or generation-guarded" buys is no longer only an argument in prose: Props/C18Cached.lean
defines `ResetDiscipline` over a table of this shape (the fields of the rows marked derived above,
each with its required reset class and no stray writer), proves that a machine which really keeps
that state between calls then refines the session model (`cached_refines_session`), evaluates the
predicate on the current table (`reset_discipline_holds`) and refutes the refinement for each reset
dropped.  `carried_state_justified` remains the obligation that NO OTHER field carries derived state.

What the facts mean and what the translator cannot see (aliases of the registry maps, writes by
reflection in the AST builder, reads that do not go through a field selection) is described at the
top of harness/cmd/extract-state/main.go; it is part of the trusted base in checks/C18.json.
-/
namespace Goyang.Props.C18State
open Goyang.Model.StateInv

/-- Every field of the carried state is either registry / configuration / a mutex according to the
reviewed allow-list, or written only by its pinned constructor / call-scoped writers, or derived
state that the start of `Modules.Process` resets completely or guards by a generation counter
and that only its pinned functions (and their private helpers) store into - as computed from the
current source.  A field the allow-list does not know is unjustified (unless
nothing in the package reads it); a derived field whose computed reset class is `partly` or
`absent` is unjustified. -/
theorem carried_state_justified : CarriedStateJustified Goyang.Gen.State.table = true := by decide +kernel

/-- The types whose fields are not listed one by one (Entry, YangType and their parts) can only be
held by the derived fields that own them. -/
theorem owned_types_confined : OwnedTypesConfined Goyang.Gen.State.owned = true := by decide +kernel

/-- No package-level variable of package yang is written outside package initialisation (or the
allow-list explains it). -/
theorem globals_written_during_init_only : GlobalsExplained Goyang.Gen.State.globals = true := by decide +kernel

/-! Non-vacuity: the table is not empty, it contains derived fields of both kinds, and the
predicate does reject what it is meant to reject. -/

example : Goyang.Gen.State.table.length ≥ 25 := by decide +kernel
example : (Goyang.Gen.State.table.filter fun f => f.allow == .derived && f.reset == .full).length ≥ 8 := by decide +kernel
example : (Goyang.Gen.State.table.filter fun f => f.allow == .derived && f.reset == .generation).length ≥ 3 := by decide +kernel

/-- a new cache field on Modules that nobody classified (the shape of seeded change C06-b2), even
though ClearEntryCache resets it -/
private def newCache : Field :=
  { owner := "Modules", name := "groupingCache", type := "map[groupingKey]*Grouping", exported := false, allow := .unknown,
    reset := .full, reads := 2, writers := ["Modules.ClearEntryCache", "Modules.findGrouping"], pinned := [] }

example : CarriedStateJustified (newCache :: Goyang.Gen.State.table) = false := by decide +kernel
example : (unjustified (newCache :: Goyang.Gen.State.table)).contains "Modules.groupingCache" = true := by decide +kernel
example : unjustified [newCache] = ["Modules.groupingCache"] := by decide +kernel

/-- a derived field that lost its reset: the namespace cache pruned instead of flushed (C18-c1) -/
private def prunedCache : Field :=
  { owner := "Modules", name := "byNS", type := "map[string]*Module", exported := false, allow := .derived,
    reset := .partly, reads := 2, writers := ["Modules.FindModuleByNamespace", "Modules.Process"], pinned := [] }

example : CarriedStateJustified [prunedCache] = false := by decide +kernel
example : CarriedStateJustified (prunedCache :: Goyang.Gen.State.table) = false := by decide +kernel

/-- a memo that is no longer generation-guarded (C09-b2) -/
private def lostStamp : Field :=
  { owner := "Typedef", name := "YangType", type := "*YangType", exported := true, allow := .derived,
    reset := .absent, reads := 3, writers := ["Typedef.resolve"], pinned := [] }

example : lostStamp.justified = false := by decide +kernel
example : ({ lostStamp with reset := .generation } : Field).justified = true := by decide +kernel

/-- a derived cache that is properly flushed but gets a new storing writer outside the flush and
the lookup (C18-f2: `add` -> `supersedeNamespace` rewrites `byNS`, and `restoreNames` does not undo
it when the text is refused) -/
private def newWriter : Field :=
  { owner := "Modules", name := "byNS", type := "map[string]*Module", exported := false, allow := .derived,
    reset := .full, reads := 3, writers := ["Modules.FindModuleByNamespace", "Modules.Process", "Modules.supersedeNamespace"],
    pinned := ["Modules.FindModuleByNamespace"], stray := ["Modules.supersedeNamespace"] }

example : newWriter.justified = false := by decide +kernel
example : ({ newWriter with stray := [] } : Field).justified = true := by decide +kernel

/-- derived state reset on the load path (C18-i22: `add` calls `ClearEntryCache` when a bare name
changes hands; `Parse` withdraws the registrations of a refused text but not the dropped cache) -/
private def resetOnLoadPath : Field :=
  { owner := "Modules", name := "entryCache", type := "map[Node]*Entry", exported := false, allow := .derived,
    reset := .full, reads := 1, writers := ["Modules.ClearEntryCache", "Modules.setEntryCache"],
    pinned := ["Modules.setEntryCache"], stray := ["Modules.add -> Modules.ClearEntryCache"] }

example : resetOnLoadPath.justified = false := by decide +kernel

/-- an element-wise reset that does not range over every module container (the tree before the D66
repair: the unlink loop of Process skipped `ms.unrevisioned`) is classified `partly` -/
private def partialUnlink : Field :=
  { owner := "Include", name := "Module", type := "*Module", exported := true, allow := .derived,
    reset := .partly, reads := 16, writers := ["Modules.Process", "Modules.include"], pinned := ["Modules.include"] }

example : partialUnlink.justified = false := by decide +kernel

/-- an informational field that nothing in the package reads needs no entry -/
private def infoField : Field :=
  { owner := "Modules", name := "loads", type := "int", exported := false, allow := .unknown, reset := .absent, reads := 0,
    writers := ["Modules.Parse"], pinned := [] }

example : infoField.justified = true := by decide +kernel

/-- a call-scoped field written by a function outside its pinned writers -/
private def strayWriter : Field :=
  { owner := "Modules", name := "entryInProgress", type := "map[Node]bool", exported := false, allow := .callScoped,
    reset := .absent, reads := 2, writers := ["Modules.beginEntry", "Modules.Process"],
    pinned := ["Modules.beginEntry", "Modules.endEntry"] }

example : strayWriter.justified = false := by decide +kernel

end Goyang.Props.C18State
