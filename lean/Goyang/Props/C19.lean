import Goyang.Model.Lockset
import Goyang.Lemmas.Lockset
import Goyang.Gen.Access
/-
C19 — independent module sets and concurrent readers do not interfere.

What is proved here is the lock discipline, not the scheduler (DESIGN.md 7.19):

* `lockset_race_free`: in the interleaving semantics of `Model/Lockset.lean` (any number of
  threads, every schedule, sync.Mutex / sync.RWMutex rules) a program whose conflicting accesses
  always hold a common mutex, one side exclusively, never reaches a data race;
* `facts_race_free`, `guarded_race_free`: for every fact table that satisfies the decidable
  predicates `ReaderDiscipline`, `GlobalsInitOnly` (resp. `GuardedLocations`), the abstract
  program the table describes is disciplined, hence race free;
* `reader_discipline_holds`, `globals_init_only_holds`, `guarded_locations_hold`,
  `no_global_escapes_holds`, `immutable_locations_hold`, `must_reach_holds` (the last three check assumptions of the model and of the allow-list): the predicates
  evaluate to `true`, in the kernel, on the table regenerated from the current Go source
  (`Gen/Access.lean`, rewritten by `harness/cmd/extract-access` on every run of the check);
* `c19_race_free`, `c19_guarded_race_free`: the two combined.

Package-level variables include variables captured by function literals made during package
initialisation (see `globals_init_only_holds`).

Not proved (trusted, see checks/C19.json): that the extraction sees every access (aliasing is
approximated by (type, field); reflection and foreign code are invisible), the allow-list, the
Go memory model, and "same result as sequential" on the binary (sampled by corr-c19-race).
Helper lemmas: Goyang/Lemmas/Lockset.lean.
-/
namespace Goyang.Props.C19
open Goyang.Model.Lockset Goyang.Lemmas.Lockset

/-- The lockset theorem: discipline on the program text excludes a race in every reachable state,
for any number of threads and all interleavings. -/
theorem lockset_race_free {M L : Type} [DecidableEq M] (prog : List (List (Ev M L)))
    (hd : Disciplined prog) : ∀ s, Reach prog s → ¬ Race s := by
  rintro s hr ⟨l, hrace⟩
  exact lockset_on prog l (hd l) s hr hrace

/-- The semantics can express a race: without locks the theorem's conclusion fails. -/
example : ∃ s, Reach (M := Nat) [[Ev.write 7], [Ev.read 7]] s ∧ Race s :=
  ⟨_, Reach.start, 7, 0, 1, ⟨Held.empty, [Ev.write 7]⟩, ⟨Held.empty, [Ev.read 7]⟩, [], [],
    by decide, rfl, rfl, rfl, Or.inr rfl⟩

/-- Any table that passes the two predicates describes a disciplined program: readers (any
number, any sequence of reader-API calls, on the shared set) and pipelines (any functions, each on
a set of its own) together. -/
theorem facts_disciplined (F : Facts) (hR : ReaderDiscipline F = true) (hG : GlobalsInitOnly F = true)
    (prog : List (List AEv)) (hprog : C19Program F prog) : Disciplined prog :=
  c19_disciplined F (readerDiscipline_spec F hR) (globalsInitOnly_spec F hG) prog hprog

theorem facts_race_free (F : Facts) (hR : ReaderDiscipline F = true) (hG : GlobalsInitOnly F = true)
    (prog : List (List AEv)) (hprog : C19Program F prog) : ∀ s, Reach prog s → ¬ Race s :=
  lockset_race_free prog (facts_disciplined F hR hG prog hprog)

/-- Any table that passes `GuardedLocations`: goroutines using the whole API on one shared set
(cache misses, Process, everything) never race on a location with a strict declared guard. -/
theorem guarded_race_free (F : Facts) (hL : GuardedLocations F = true) (prog : List (List AEv))
    (hprog : AnyProgram F prog) (g : Nat × Nat × Bool) (hg : g ∈ F.guards) (hstrict : g.2.2 = true) :
    ∀ s, Reach prog s → ¬ RaceOn s (sharedInst, g.1) :=
  lockset_on prog _ (guarded_disciplined F g (guardedLocations_spec F hL g hg) hstrict prog hprog)

/-! A small table showing that the hypotheses are satisfiable by a non-trivial program and that the
predicates notice a dropped lock.  Function 0 is a reader root that calls function 1 under
mutex 0 (shared) and writes location 5 under mutex 0 (exclusive); function 1 reads location 5
under mutex 0 (shared); function 2 is the package initialiser and writes the package-level
variable 9. -/
def demo : Facts where
  fns := [⟨[], [⟨5, [(0, true)], 0⟩], [⟨1, [], 0⟩], [], true⟩,
          ⟨[⟨5, [(0, false)], 0⟩, ⟨9, [], 0⟩], [], [], [], false⟩,
          ⟨[], [⟨9, [], 0⟩], [], [⟨9, [], 0⟩], false⟩]
  readerRoots := [0]
  readerReach := [0, 1]
  initRoots := [2]
  initOnly := [2]
  globals := [9]
  guards := [(5, 0, true)]
  immutable := [9]
  mustReach := [(0, 1, true)]
  goStmts := 0

/-- the same with the Lock of function 0 dropped -/
def demoBad : Facts := { demo with fns := [⟨[], [⟨5, [], 0⟩], [⟨1, [], 0⟩], [], true⟩] ++ demo.fns.drop 1 }

/-- function 1 hands out the object of the package-level variable 9 (as `newListAttr` would) -/
def demoLeak : Facts :=
  { demo with fns := demo.fns.take 1 ++ [⟨[⟨5, [(0, false)], 0⟩, ⟨9, [], 0⟩], [], [], [⟨9, [], 0⟩], false⟩] ++ demo.fns.drop 2 }

example : ReaderDiscipline demo = true ∧ GlobalsInitOnly demo = true ∧ GuardedLocations demo = true ∧
    NoGlobalEscapes demo = true ∧ ImmutableLocations demo = true ∧ MustReach demo = true := by decide
example : ReaderDiscipline demoBad = false ∧ GuardedLocations demoBad = false := by decide
example : NoGlobalEscapes demoLeak = false ∧ GlobalsInitOnly demoLeak = true := by decide
/-- a write of location 5 would break immutability if 5 were declared immutable -/
example : ImmutableLocations { demo with immutable := [5] } = false := by decide

/-- one call of function 0: write under Lock, then the callee's read under RLock -/
def demoThread : List AEv :=
  [.acquire (1, 0) .excl, .write (1, 5), .release (1, 0), .acquire (1, 0) .shared, .read (1, 5), .release (1, 0)]

example : ReaderThread demo demoThread :=
  Calls.cons 0 demoThread [] rfl
    (Run.access 0 _ true ⟨5, [(0, true)], 0⟩ _ rfl (by simp) rfl
      (Run.call 0 _ ⟨1, [], 0⟩ _ [] rfl (by simp) rfl
        (Run.access 1 _ false ⟨5, [(0, false)], 0⟩ [] rfl (by simp) rfl (Run.done 1))
        (Run.done 0)))
    Calls.nil

/-- and with the Lock dropped the two-reader program of the bad table starts in a race -/
example : ∃ s, Reach (M := Nat × Nat) [[Ev.write (1, 5)], [Ev.write (1, 5)]] s ∧ Race s :=
  ⟨_, Reach.start, (1, 5), 0, 1, ⟨Held.empty, [Ev.write (1, 5)]⟩, ⟨Held.empty, [Ev.write (1, 5)]⟩, [], [],
    by decide, rfl, rfl, rfl, Or.inl rfl⟩

/-! ## The per-run obligations over the regenerated table -/

theorem reader_discipline_holds : ReaderDiscipline Gen.Access.facts = true := by decide +kernel

/-- Package-level state is written during package initialisation only.  The package-level
variables of the table (`Facts.globals`) are the declared ones and the CAPTURED ones: a local
variable of a function that runs during package initialisation (the package initialisers and what
they call statically, e.g. `initTypes`) that is captured by a function literal whose value is kept
(stored, returned, sent, started with `go`, handed to a function of the packages) is the location
`<function>$<variable>`; loads and stores through it - also in the body of the literal - are reads
and writes of that location (rule in full: harness/cmd/extract-access/closures.go).  A store to it
in a literal that can run after initialisation (a builder closure of ast.go that keeps a lazily
made value between calls) makes this obligation fail. -/
theorem globals_init_only_holds : GlobalsInitOnly Gen.Access.facts = true := by decide +kernel

theorem guarded_locations_hold : GuardedLocations Gen.Access.facts = true := by decide +kernel

/-- Supports an assumption rather than a theorem: the instance-private reading of non-global
locations (`locOf`) presupposes that objects of package-level variables do not become reachable
from a module set; outside package initialisation no reference to one leaves a function, except
for the variables explained one by one in allow.json (`Gen.Access.globalRefOkNames`). -/
theorem no_global_escapes_holds : NoGlobalEscapes Gen.Access.facts = true := by decide +kernel

/-- Also an assumption check: what hangs below the shared package-level range tables (`Number`,
`YRange` values) is never stored to through a pointer after package initialisation. -/
theorem immutable_locations_hold : ImmutableLocations Gen.Access.facts = true := by decide +kernel

/-- Supports the guard of the allow-list entry for the cache-miss region of `ToEntry`: every
conversion that passed `beginEntry` ends with the cache store (control-flow fact re-derived from
the source), so the nodes `Process` converted are cached and readers hit. -/
theorem must_reach_holds : MustReach Gen.Access.facts = true := by decide +kernel

/-- C19 for the abstract program extracted from the current source: N goroutines, each either a
reader of the shared processed set or a pipeline on its own set, in any interleaving, never reach
a data race. -/
theorem c19_race_free (prog : List (List AEv)) (hprog : C19Program Gen.Access.facts prog) :
    ∀ s, Reach prog s → ¬ Race s :=
  facts_race_free _ reader_discipline_holds globals_init_only_holds prog hprog

/-- The mutex-guarded tables declared in allow.json (namespace cache, entry cache and the set of
nodes under conversion, typedef dictionary: reads and writes; identity dictionary: writes only,
which this theorem therefore does not cover) are race free wherever they are touched. -/
theorem c19_guarded_race_free (prog : List (List AEv)) (hprog : AnyProgram Gen.Access.facts prog)
    (g : Nat × Nat × Bool) (hg : g ∈ Gen.Access.facts.guards) (hstrict : g.2.2 = true) :
    ∀ s, Reach prog s → ¬ RaceOn s (sharedInst, g.1) :=
  guarded_race_free _ guarded_locations_hold prog hprog g hg hstrict

end Goyang.Props.C19
