import Goyang.Model.Indent
import Goyang.Spec.Indent
import Goyang.Lemmas.Indent
/-
C20 — indented writing is chunk-independent and accounts bytes truthfully.
Property theorems only; helper lemmas live in Goyang/Lemmas/Indent.lean.

Reading aid.  `Spec.Indent.render pre atStart s` is the byte-level rendering: `pre` in front of
every byte of `s` that starts a line (`atStart` says whether the first byte does), nothing else
added — in particular nothing after a final line feed.  `Spec.Indent.callerBytesIn pre atStart s k`
counts the caller's bytes among the first `k` bytes of that rendering.  `Spec.Indent.atStartAfter
atStart s` says whether the byte after `s` starts a line.  The writer state `p` (`iw.partial`)
is "the current output line already carries its prefix", so a Write in state `p` renders with
`atStart = !p`; a fresh writer has `p = false`.

Histories (last section): `Spec.Indent.history` is what is asked when the caller goes on writing after
short writes; there the full statement is false of the code (`resume_spec_fails`, finding D20-M1).

All other statements hold for every prefix, text, chunking and stop position; hypotheses appear only
where the Go code itself branches (`len(buf) == 0` returns before the underlying writer is called).
The model's `write` describes `(*iw).Write`, which exists only for a non-empty prefix
(`NewWriter(w, "")` returns `w` itself); the theorems do not need that restriction, because with
an empty prefix the rendering is the text itself (`render_empty_prefix`).
-/
namespace Goyang.Props.C20
open Goyang.Model.Indent
open Goyang.Spec.Indent (tagged render callerBytesIn atStartAfter nestedRender cutState history observed
  cutsAtEndState)
open Goyang.Lemmas.Indent (join_write render_append atStartAfter_append callerBytesIn_le
  callerBytesIn_min render_getLast? tagged_append countP_tagged write_none_eq write_some_eq)

/-! ### one-shot `indent.String` / `indent.Bytes` -/

/-- The one-shot function produces the byte-level rendering: the prefix at the start of every
line, nothing after the final line break.  (No hypothesis on `pre`: see `render_empty_prefix`.) -/
theorem oneshot_spec (pre s : Bytes) : indent pre s = render pre true s := by
  unfold indent
  by_cases hp : pre = []
  · subst hp; simp [Lemmas.Indent.render_empty_prefix]
  · by_cases hs : s = []
    · subst hs; simp [Lemmas.Indent.render_nil]
    · have := join_write pre false hs
      simp only [Bool.false_eq_true, if_false, Bool.not_false] at this
      simp [hp, hs, this]

/-- With an empty prefix the specified rendering is the text itself. -/
theorem render_empty_prefix (atStart : Bool) (s : Bytes) : render [] atStart s = s :=
  Lemmas.Indent.render_empty_prefix atStart s

/-- Degenerate cases of the one-shot function: an empty prefix or an empty text give the text. -/
theorem oneshot_degenerate (pre s : Bytes) : indent [] s = s ∧ indent pre [] = [] := by
  simp [indent]

/-- Nothing is added after the end of the text: the indented text ends with the same byte, so a
text that ends in a line break is rendered ending in that line break. -/
theorem oneshot_last (pre s : Bytes) (h : s ≠ []) : (indent pre s).getLast? = s.getLast? := by
  rw [oneshot_spec]; exact render_getLast? pre true h

example : indent [62, 62] [97, 98, 10, 10, 99, 10] = [62, 62, 97, 98, 10, 62, 62, 10, 62, 62, 99, 10] := by decide
example : render [62, 62] true [97, 98, 10, 10, 99, 10] = [62, 62, 97, 98, 10, 62, 62, 10, 62, 62, 99, 10] := by decide
example : indent [62] [10, 97] = [62, 10, 62, 97] := by decide
example : ([97, 98, 10] : Bytes) ≠ [] := by decide

/-- Sanity of the specification itself: the rendering consists of the caller's text, byte for
byte and in order, plus prefix bytes (tagged `false`) — so "the number of caller bytes among the
first `k`" is a count of bytes of `s`. -/
theorem spec_keeps_text (pre : Bytes) (atStart : Bool) (s : Bytes) :
    ((tagged pre atStart s).filter (·.2)).map (·.1) = s ∧
    (tagged pre atStart s).map (·.1) = render pre atStart s ∧
    callerBytesIn pre atStart s (render pre atStart s).length = s.length := by
  refine ⟨Lemmas.Indent.filter_tagged pre atStart s, rfl, ?_⟩
  simp [callerBytesIn, render, countP_tagged]

/-! ### one successful `Write` -/

/-- Everything a successful Write does, for every state, prefix and buffer (the empty buffer
included): the underlying writer is handed, and takes, the rendering of `buf` continuing the
current line state; the call reports `len(buf)` and no error; afterwards `partial` is true exactly
when the output so far does not end in a line feed. -/
theorem write_success (pre : Bytes) (p : Bool) (buf : Bytes) :
    (write pre p buf none).reached = render pre (!p) buf ∧
    (write pre p buf none).handed = (write pre p buf none).reached ∧
    (write pre p buf none).n = buf.length ∧
    (write pre p buf none).err = false ∧
    (write pre p buf none).partial_ = !(atStartAfter (!p) buf) := by
  simp [write_none_eq]

/-- A successful Write reports the full length of its argument. -/
theorem write_ok_len (pre : Bytes) (p : Bool) (buf : Bytes) :
    (write pre p buf none).n = buf.length ∧ (write pre p buf none).err = false := by
  simp [write_none_eq]

/-- The state bit, read on its own: after a successful Write of a non-empty buffer the writer
remembers "inside a line" iff the buffer does not end in a line feed. -/
theorem write_partial_bit (pre : Bytes) (p : Bool) (buf : Bytes) (h : buf ≠ []) :
    (write pre p buf none).partial_ = (buf.getLast? != some NL) := by
  obtain ⟨b, hb⟩ := Lemmas.Indent.getLast?_some h
  simp [write_none_eq, atStartAfter, hb, Lemmas.Indent.specNL, bne]

example : write [62, 62] false [97, 10, 98] none =
    { partial_ := true, handed := [62, 62, 97, 10, 62, 62, 98], reached := [62, 62, 97, 10, 62, 62, 98],
      n := 3, err := false } := by decide
example : write [62, 62] true [97, 10, 98, 10] none =
    { partial_ := false, handed := [97, 10, 62, 62, 98, 10], reached := [97, 10, 62, 62, 98, 10],
      n := 4, err := false } := by decide

/-! ### any division into successful Writes -/

/-- Chunk independence from any writer state: what reaches the underlying writer over a sequence
of successful Writes (empty ones allowed) is the rendering of the concatenated text, and every
call returns `(len(chunk), nil)`. -/
theorem stream_from_state (pre : Bytes) (p : Bool) (chunks : List Bytes) :
    writes pre p (chunks.map (·, none)) =
      (render pre (!p) chunks.flatten, chunks.map (fun c => ((c.length : Int), false))) := by
  induction chunks generalizing p with
  | nil => simp [writes, Lemmas.Indent.render_nil]
  | cons c cs ih =>
    simp only [List.map_cons, writes, write_none_eq, ih, Bool.not_not, List.flatten_cons,
      render_append]

/-- Text written through a fresh indenting writer in any division into Write calls comes out
exactly as the one-shot function renders the concatenated text, and every Write reports the full
length of its argument and no error. -/
theorem stream_eq_oneshot (pre : Bytes) (chunks : List Bytes) :
    (writes pre false (chunks.map (·, none))).1 = indent pre chunks.flatten ∧
    (writes pre false (chunks.map (·, none))).1 = render pre true chunks.flatten ∧
    (writes pre false (chunks.map (·, none))).2 = chunks.map (fun c => ((c.length : Int), false)) := by
  simp [stream_from_state, oneshot_spec]

example : writes [62, 62] false ([[97], [], [98, 10, 10], [99, 10, 100]].map (·, none)) =
    (indent [62, 62] [97, 98, 10, 10, 99, 10, 100], [(1, false), (0, false), (3, false), (3, false)]) := by decide
example : indent [62, 62] [97, 98, 10, 10, 99, 10, 100] =
    [62, 62, 97, 98, 10, 62, 62, 10, 62, 62, 99, 10, 62, 62, 100] := by decide

/-! ### stacked writers -/

/-- Indenting writers compose: with `outer = NewWriter(inner, p2)` over `inner = NewWriter(sink, p1)`
and successful Write calls addressed to either of them in any interleaving and from any pair of
line states, the sink receives the two-level rendering of the specification, and every call returns
the length of its own argument (not of what was handed further down). -/
theorem nested_spec (p1 p2 : Bytes) (pin pout : Bool) (ops : List (Bool × Bytes)) :
    nestedWrites p1 p2 pin pout ops =
      (nestedRender p1 p2 (!pin) (!pout) ops, ops.map (fun o => (o.2.length : Int))) := by
  induction ops generalizing pin pout with
  | nil => simp [nestedWrites, nestedRender]
  | cons o os ih =>
    obtain ⟨b, buf⟩ := o
    cases b <;> simp [nestedWrites, nestedRender, write_none_eq, ih]

/-- Text written only through the outer of two fresh stacked writers comes out as the one-shot
rendering with the inner prefix of the one-shot rendering with the outer prefix. -/
theorem nested_outer_only (p1 p2 : Bytes) (chunks : List Bytes) :
    (nestedWrites p1 p2 false false (chunks.map (true, ·))).1 =
      render p1 true (render p2 true chunks.flatten) := by
  rw [nested_spec]
  suffices h : ∀ (a b : Bool), nestedRender p1 p2 a b (chunks.map (true, ·)) =
      render p1 a (render p2 b chunks.flatten) from h true true
  induction chunks with
  | nil => intro a b; simp [nestedRender, Lemmas.Indent.render_nil]
  | cons c cs ih =>
    intro a b
    simp only [List.map_cons, nestedRender, ih, List.flatten_cons, render_append]

example : nestedWrites [62] [32, 32] false false [(true, [97]), (false, [10]), (true, [98])] =
    ([62, 32, 32, 97, 10, 62, 98], [1, 1, 1]) := by decide

/-! ### a Write that the underlying writer cuts short -/

example : ([97, 10, 98] : Bytes) ≠ [] := by decide

/-- A Write that the underlying writer cuts short (`buf` non-empty; the underlying writer takes
`k` bytes of what it is handed and reports an error).  It was handed the full rendering and took
its first `k` bytes; the count returned is exactly the number of the caller's bytes among them —
prefix bytes are not counted; it is never negative and never more than the argument; the error is
passed on.  `k` is unrestricted: beyond the length of what is handed down it behaves as that length.
(The model computes the count over `Int`, as the Go code computes over `int`, with `remain` going
below zero when the cut falls inside a prefix: non-negativity is proved here, not assumed by a type.) -/
theorem write_short_count (pre : Bytes) (p : Bool) (buf : Bytes) (h : buf ≠ []) (k : Nat) :
    (write pre p buf (some k)).handed = render pre (!p) buf ∧
    (write pre p buf (some k)).reached = (render pre (!p) buf).take k ∧
    (write pre p buf (some k)).n =
      callerBytesIn pre (!p) buf (min k (write pre p buf (some k)).handed.length) ∧
    (write pre p buf (some k)).n = callerBytesIn pre (!p) buf k ∧
    0 ≤ (write pre p buf (some k)).n ∧
    (write pre p buf (some k)).n ≤ buf.length ∧
    (write pre p buf (some k)).err = true ∧
    (write pre p buf (some k)).partial_ = !(atStartAfter (!p) buf) := by
  have hc := callerBytesIn_min pre (!p) buf k
  have hle := callerBytesIn_le pre (!p) buf k
  rw [write_some_eq pre p h k]
  refine ⟨rfl, rfl, ?_, rfl, ?_, ?_, rfl, rfl⟩
  · simp only [hc]
  · simp only; omega
  · simp only; omega

/-- An empty Write does nothing at all, whatever the underlying writer would do. -/
theorem write_empty (pre : Bytes) (p : Bool) (u : Under) :
    (write pre p [] u).handed = [] ∧ (write pre p [] u).reached = [] ∧ (write pre p [] u).n = 0 ∧
    (write pre p [] u).err = false ∧ (write pre p [] u).partial_ = p := by
  simp [write]

/-- A short write anywhere in a stream: after any successful Writes `chunks`, a Write of `buf`
that is cut after `k` bytes leaves the underlying writer with a prefix of the one-shot rendering
of the whole text; the failing call returns the number of bytes of `buf` inside that prefix, so
that all counts returned so far add up to the number of caller bytes that reached the underlying
writer. -/
theorem stream_short (pre : Bytes) (chunks : List Bytes) (buf : Bytes) (h : buf ≠ []) (k : Nat) :
    (writes pre false (chunks.map (·, none) ++ [(buf, some k)])).1 =
      (indent pre (chunks.flatten ++ buf)).take ((indent pre chunks.flatten).length + k) ∧
    (writes pre false (chunks.map (·, none) ++ [(buf, some k)])).2 =
      chunks.map (fun c => ((c.length : Int), false)) ++
        [(((callerBytesIn pre (atStartAfter true chunks.flatten) buf k : Nat) : Int), true)] ∧
    chunks.flatten.length + callerBytesIn pre (atStartAfter true chunks.flatten) buf k =
      callerBytesIn pre true (chunks.flatten ++ buf) ((indent pre chunks.flatten).length + k) := by
  have gen : ∀ (p : Bool) (cs : List Bytes),
      writes pre p (cs.map (·, none) ++ [(buf, some k)]) =
        (render pre (!p) cs.flatten ++ (render pre (atStartAfter (!p) cs.flatten) buf).take k,
         cs.map (fun c => ((c.length : Int), false)) ++
           [(((callerBytesIn pre (atStartAfter (!p) cs.flatten) buf k : Nat) : Int), true)]) := by
    intro p cs
    induction cs generalizing p with
    | nil => simp [writes, write_some_eq pre p h k, Lemmas.Indent.render_nil, atStartAfter]
    | cons c cs ih =>
      simp only [List.map_cons, List.cons_append, writes, write_none_eq, ih, Bool.not_not,
        List.flatten_cons, render_append, atStartAfter_append, List.append_assoc]
  rw [gen false chunks]
  refine ⟨?_, rfl, ?_⟩
  · simp only [oneshot_spec, Bool.not_false, render_append, List.take_length_add_append]
  · have hlen : (render pre true chunks.flatten).length = (tagged pre true chunks.flatten).length := by
      simp [render]
    simp only [oneshot_spec, callerBytesIn, tagged_append, hlen, List.take_length_add_append,
      List.countP_append, countP_tagged]

example : writes [62, 62] false [([97, 98], none), ([99, 100, 10, 101, 102], some 1)] =
    ([62, 62, 97, 98, 99], [(2, false), (1, true)]) := by decide
example : writes [62, 62] false [([97, 98], none), ([99, 100, 10, 101, 102], some 4)] =
    ([62, 62, 97, 98, 99, 100, 10, 62], [(2, false), (3, true)]) := by decide
example : writes [62, 62] false [([97, 98], none), ([99, 100, 10, 101, 102], some 6)] =
    ([62, 62, 97, 98, 99, 100, 10, 62, 62, 101], [(2, false), (4, true)]) := by decide
example : write [62, 62] false [97, 10, 98] (some 1) =
    { partial_ := true, handed := [62, 62, 97, 10, 62, 62, 98], reached := [62], n := 0, err := true } := by decide
example : callerBytesIn [62, 62] false [99, 100, 10, 101, 102] 4 = 3 := by decide

/-! ### histories: the caller goes on writing after a short write

`Spec.Indent.history` says what the property asks when the underlying writer cuts Writes short and
the caller goes on (resuming with the unwritten remainder, or with anything else): the caller bytes
accepted in successive calls are rendered as one text, so after a short write the line state is the
one AT THE CUT (`Spec.Indent.cutState`).  The Go code records the state of the END of the argument
before it calls the underlying writer (`write_short_count`, last clause).  The two differ whenever
the cut separates bytes of different line state: the full statement is false of the code
(`resume_spec_fails`, known finding D20-M1, replayed on the real code by corr-c20), and holds on the
histories whose cuts fall where the state is that of the end of the argument (`resume_spec_partial`). -/

/-- The specification of histories, on histories without a short write, is the specification of
streams: the rendering of the concatenated text, every count the length of its argument. -/
theorem history_success (pre : Bytes) (a : Bool) (chunks : List Bytes) :
    observed (history pre a (chunks.map (·, none))) =
      (render pre a chunks.flatten, chunks.map (fun c => ((c.length : Int), false))) := by
  induction chunks generalizing a with
  | nil => simp [history, observed, Lemmas.Indent.render_nil]
  | cons c cs ih =>
    have := ih (atStartAfter a c)
    simp only [observed, Prod.mk.injEq] at this
    simp only [List.map_cons, history, observed, List.flatten_cons, render_append, this.1, this.2,
      List.map_cons]

/-- The full statement — the writer behaves as the specification of histories asks, whatever the
underlying writer cuts short and however the caller goes on — is FALSE of the code: with prefix
`--`, `Write("ab\n")` cut after `--a` returns `(1, err)`; the caller resumes with `Write("b\n")` and
the underlying writer ends up with `--a--b\n`, a prefix in the middle of the open line (the
accepted bytes `ab\n` are rendered `--ab\n`). -/
theorem resume_spec_fails :
    ¬ ∀ (pre : Bytes) (cs : List (Bytes × Under)), writes pre false cs = observed (history pre true cs) := by
  intro h
  have := h [45, 45] [([97, 98, 10], some 3), ([98, 10], none)]
  revert this
  decide

example : writes [45, 45] false [([97, 98, 10], some 3), ([98, 10], none)] =
    ([45, 45, 97, 45, 45, 98, 10], [(1, true), (2, false)]) := by decide
example : observed (history [45, 45] true [([97, 98, 10], some 3), ([98, 10], none)]) =
    ([45, 45, 97, 98, 10], [(1, true), (2, false)]) := by decide
/-- nothing got through, the caller tries again: the prefix is lost -/
example : writes [45, 45] false [([97], some 0), ([97], none)] = ([97], [(0, true), (1, false)]) ∧
    observed (history [45, 45] true [([97], some 0), ([97], none)]) = ([45, 45, 97], [(0, true), (1, false)]) := by decide

/-- What does hold: on the histories in which every cut leaves the line state of the end of the
cut argument (`cutsAtEndState`: no cut inside a prefix, and e.g. a cut inside the last line of a
chunk that does not end in a line feed, at or after the end of that line's prefix — the shape of
a caller resuming `abc` after `--a`), from any writer state, the writer does what the specification of
histories asks: bytes reaching the underlying writer, counts and errors of all calls, including
those after the short writes. -/
theorem resume_spec_partial (pre : Bytes) (p : Bool) (cs : List (Bytes × Under))
    (h : cutsAtEndState pre (!p) cs) :
    writes pre p cs = observed (history pre (!p) cs) := by
  induction cs generalizing p with
  | nil => simp [writes, history, observed]
  | cons c cs ih =>
    obtain ⟨buf, u⟩ := c
    cases u with
    | none =>
      simp only [cutsAtEndState] at h
      have := ih (!(atStartAfter (!p) buf)) (by simpa using h)
      simp only [Bool.not_not, observed] at this
      simp only [writes, write_none_eq, history, observed, this, List.map_cons]
    | some k =>
      by_cases hb : buf = []
      · subst hb
        simp only [cutsAtEndState, List.isEmpty_nil, if_true] at h
        have := ih p h
        simp only [observed] at this
        simp [writes, write, history, observed, this]
      · simp only [cutsAtEndState, List.isEmpty_iff, hb, if_false] at h
        have := ih (!(atStartAfter (!p) buf)) (by simpa using h.2)
        simp only [Bool.not_not, observed] at this
        simp only [writes, write_some_eq pre p hb k, history, List.isEmpty_iff, hb, if_false, h.1,
          observed, this, List.map_cons]

example : cutsAtEndState [45, 45] true [([97, 98, 99], some 3), ([98, 99, 10], none)] := by
  simp only [cutsAtEndState]; decide
example : writes [45, 45] false [([97, 98, 99], some 3), ([98, 99, 10], none)] =
    ([45, 45, 97, 98, 99, 10], [(1, true), (3, false)]) := by decide

end Goyang.Props.C20
