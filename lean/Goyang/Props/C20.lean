import Goyang.Model.Indent
import Goyang.Spec.Indent
/-
C20 — indented writing is chunk-independent and accounts bytes truthfully.
Property theorems only; helper lemmas live in Goyang/Lemmas/Indent.lean.
-/
namespace Goyang.Props.C20
open Goyang.Model.Indent

/-- A successful Write reports the full length of its argument. -/
theorem write_ok_len (pre : Bytes) (p : Bool) (buf : Bytes) :
    (write pre p buf none).n = buf.length ∧ (write pre p buf none).err = false := by
  unfold write
  split
  · next h => simp_all [List.isEmpty_iff]
  · simp

end Goyang.Props.C20
