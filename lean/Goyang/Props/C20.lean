import Goyang.Model.Indent
import Goyang.Spec.Indent
import Goyang.Lemmas.Indent
/-
C20 — indented writing is chunk-independent and accounts bytes truthfully.
Property theorems only; helper lemmas live in Goyang/Lemmas/Indent.lean.

Reading aid.  `Spec.Indent.render pre atStart s` is the byte-level rendering: `pre` in front of
every byte of `s` that starts a line (`atStart` says whether the first byte does), nothing else
added — in particular nothing after a final line feed.  `Spec.Indent.callerBytesIn pre atStart s k`
counts the caller's bytes among the first `k` bytes of that rendering.  `Spec.Indent.atStartAfter
atStart s` says whether the byte after `s` starts a line.  The writer state `p` (`iw.partial`)
is "the current output line already carries its prefix", so a Write in state `p` renders with
`atStart = !p`; a fresh writer has `p = false`.

Histories (last section): `Spec.Indent.history` is what is asked when the caller goes on writing after
short writes: the line state after a short write is the one at the cut (`Spec.Indent.cutState`).  The
history stage of corr-c20 found that the code kept the state of the END of the argument instead
(D20-M1: `Write("ab\n")` cut after `--a`, then `Write("b\n")`, gave `--a--b\n`); repaired in /repo
8883425 (`partialAfter`), mirrored in `Model.Indent.partialAfter`.  Now proved in full: `resume_spec`
(the writer follows the specification of histories — bytes, counts, errors, line states — on every
history, up to its first cut inside a prefix, after which nothing is asked) and
`history_sink_is_rendering` (what that specification leaves with the underlying writer is the
one-shot rendering of the concatenated accepted bytes, plus one prefix already written for the next
line when the last cut fell exactly after it; `writer_sink_is_rendering`: so does the writer).  The former refutation
`resume_spec_fails` and the restricted `resume_spec_partial` are gone (the latter is subsumed).
`stateOfCut` turns the specification's state after a call into the writer's bit: `some a ↦ !a`
(`partial` = "not at a line start"), and `none` (cut inside a prefix) `↦ false`, which is what
`partialAfter` answers there.

All statements hold for every prefix, text, chunking and stop position; hypotheses appear only
where the Go code itself branches (`len(buf) == 0` returns before the underlying writer is called).
The model's `write` describes `(*iw).Write`, which exists only for a non-empty prefix
(`NewWriter(w, "")` returns `w` itself); the theorems do not need that restriction, because with
an empty prefix the rendering is the text itself (`render_empty_prefix`).
-/
namespace Goyang.Props.C20
open Goyang.Model.Indent
open Goyang.Spec.Indent (tagged render callerBytesIn atStartAfter nestedRender cutState history observed
  uptoBrokenCut accepted finalState pending)
open Goyang.Lemmas.Indent (join_write render_append atStartAfter_append callerBytesIn_le
  callerBytesIn_min render_getLast? tagged_append countP_tagged write_none_eq write_some_eq stateOfCut)

/-! ### one-shot `indent.String` / `indent.Bytes` -/

/-- The one-shot function produces the byte-level rendering: the prefix at the start of every
line, nothing after the final line break.  (No hypothesis on `pre`: see `render_empty_prefix`.) -/
theorem oneshot_spec (pre s : Bytes) : indent pre s = render pre true s := by
  unfold indent
  by_cases hp : pre = []
  · subst hp; simp [Lemmas.Indent.render_empty_prefix]
  · by_cases hs : s = []
    · subst hs; simp [Lemmas.Indent.render_nil]
    · have := join_write pre false hs
      simp only [Bool.false_eq_true, if_false, Bool.not_false] at this
      simp [hp, hs, this]

/-- With an empty prefix the specified rendering is the text itself. -/
theorem render_empty_prefix (atStart : Bool) (s : Bytes) : render [] atStart s = s :=
  Lemmas.Indent.render_empty_prefix atStart s

/-- Degenerate cases of the one-shot function: an empty prefix or an empty text give the text. -/
theorem oneshot_degenerate (pre s : Bytes) : indent [] s = s ∧ indent pre [] = [] := by
  simp [indent]

/-- Nothing is added after the end of the text: the indented text ends with the same byte, so a
text that ends in a line break is rendered ending in that line break. -/
theorem oneshot_last (pre s : Bytes) (h : s ≠ []) : (indent pre s).getLast? = s.getLast? := by
  rw [oneshot_spec]; exact render_getLast? pre true h

example : indent [62, 62] [97, 98, 10, 10, 99, 10] = [62, 62, 97, 98, 10, 62, 62, 10, 62, 62, 99, 10] := by decide
example : render [62, 62] true [97, 98, 10, 10, 99, 10] = [62, 62, 97, 98, 10, 62, 62, 10, 62, 62, 99, 10] := by decide
example : indent [62] [10, 97] = [62, 10, 62, 97] := by decide
example : ([97, 98, 10] : Bytes) ≠ [] := by decide

/-- Sanity of the specification itself: the rendering consists of the caller's text, byte for
byte and in order, plus prefix bytes (tagged `false`) — so "the number of caller bytes among the
first `k`" is a count of bytes of `s`. -/
theorem spec_keeps_text (pre : Bytes) (atStart : Bool) (s : Bytes) :
    ((tagged pre atStart s).filter (·.2)).map (·.1) = s ∧
    (tagged pre atStart s).map (·.1) = render pre atStart s ∧
    callerBytesIn pre atStart s (render pre atStart s).length = s.length := by
  refine ⟨Lemmas.Indent.filter_tagged pre atStart s, rfl, ?_⟩
  simp [callerBytesIn, render, countP_tagged]

/-! ### one successful `Write` -/

/-- Everything a successful Write does, for every state, prefix and buffer (the empty buffer
included): the underlying writer is handed, and takes, the rendering of `buf` continuing the
current line state; the call reports `len(buf)` and no error; afterwards `partial` is true exactly
when the output so far does not end in a line feed. -/
theorem write_success (pre : Bytes) (p : Bool) (buf : Bytes) :
    (write pre p buf none).reached = render pre (!p) buf ∧
    (write pre p buf none).handed = (write pre p buf none).reached ∧
    (write pre p buf none).n = buf.length ∧
    (write pre p buf none).err = false ∧
    (write pre p buf none).partial_ = !(atStartAfter (!p) buf) := by
  simp [write_none_eq]

/-- A successful Write reports the full length of its argument. -/
theorem write_ok_len (pre : Bytes) (p : Bool) (buf : Bytes) :
    (write pre p buf none).n = buf.length ∧ (write pre p buf none).err = false := by
  simp [write_none_eq]

/-- The state bit, read on its own: after a successful Write of a non-empty buffer the writer
remembers "inside a line" iff the buffer does not end in a line feed. -/
theorem write_partial_bit (pre : Bytes) (p : Bool) (buf : Bytes) (h : buf ≠ []) :
    (write pre p buf none).partial_ = (buf.getLast? != some NL) := by
  obtain ⟨b, hb⟩ := Lemmas.Indent.getLast?_some h
  simp [write_none_eq, atStartAfter, hb, Lemmas.Indent.specNL, bne]

example : write [62, 62] false [97, 10, 98] none =
    { partial_ := true, handed := [62, 62, 97, 10, 62, 62, 98], reached := [62, 62, 97, 10, 62, 62, 98],
      n := 3, err := false } := by decide
example : write [62, 62] true [97, 10, 98, 10] none =
    { partial_ := false, handed := [97, 10, 62, 62, 98, 10], reached := [97, 10, 62, 62, 98, 10],
      n := 4, err := false } := by decide

/-! ### any division into successful Writes -/

/-- Chunk independence from any writer state: what reaches the underlying writer over a sequence
of successful Writes (empty ones allowed) is the rendering of the concatenated text, and every
call returns `(len(chunk), nil)`. -/
theorem stream_from_state (pre : Bytes) (p : Bool) (chunks : List Bytes) :
    writes pre p (chunks.map (·, none)) =
      (render pre (!p) chunks.flatten, chunks.map (fun c => ((c.length : Int), false))) := by
  induction chunks generalizing p with
  | nil => simp [writes, Lemmas.Indent.render_nil]
  | cons c cs ih =>
    simp only [List.map_cons, writes, write_none_eq, ih, Bool.not_not, List.flatten_cons,
      render_append]

/-- Text written through a fresh indenting writer in any division into Write calls comes out
exactly as the one-shot function renders the concatenated text, and every Write reports the full
length of its argument and no error. -/
theorem stream_eq_oneshot (pre : Bytes) (chunks : List Bytes) :
    (writes pre false (chunks.map (·, none))).1 = indent pre chunks.flatten ∧
    (writes pre false (chunks.map (·, none))).1 = render pre true chunks.flatten ∧
    (writes pre false (chunks.map (·, none))).2 = chunks.map (fun c => ((c.length : Int), false)) := by
  simp [stream_from_state, oneshot_spec]

example : writes [62, 62] false ([[97], [], [98, 10, 10], [99, 10, 100]].map (·, none)) =
    (indent [62, 62] [97, 98, 10, 10, 99, 10, 100], [(1, false), (0, false), (3, false), (3, false)]) := by decide
example : indent [62, 62] [97, 98, 10, 10, 99, 10, 100] =
    [62, 62, 97, 98, 10, 62, 62, 10, 62, 62, 99, 10, 62, 62, 100] := by decide

/-! ### stacked writers -/

/-- Indenting writers compose: with `outer = NewWriter(inner, p2)` over `inner = NewWriter(sink, p1)`
and successful Write calls addressed to either of them in any interleaving and from any pair of
line states, the sink receives the two-level rendering of the specification, and every call returns
the length of its own argument (not of what was handed further down). -/
theorem nested_spec (p1 p2 : Bytes) (pin pout : Bool) (ops : List (Bool × Bytes)) :
    nestedWrites p1 p2 pin pout ops =
      (nestedRender p1 p2 (!pin) (!pout) ops, ops.map (fun o => (o.2.length : Int))) := by
  induction ops generalizing pin pout with
  | nil => simp [nestedWrites, nestedRender]
  | cons o os ih =>
    obtain ⟨b, buf⟩ := o
    cases b <;> simp [nestedWrites, nestedRender, write_none_eq, ih]

/-- Text written only through the outer of two fresh stacked writers comes out as the one-shot
rendering with the inner prefix of the one-shot rendering with the outer prefix. -/
theorem nested_outer_only (p1 p2 : Bytes) (chunks : List Bytes) :
    (nestedWrites p1 p2 false false (chunks.map (true, ·))).1 =
      render p1 true (render p2 true chunks.flatten) := by
  rw [nested_spec]
  suffices h : ∀ (a b : Bool), nestedRender p1 p2 a b (chunks.map (true, ·)) =
      render p1 a (render p2 b chunks.flatten) from h true true
  induction chunks with
  | nil => intro a b; simp [nestedRender, Lemmas.Indent.render_nil]
  | cons c cs ih =>
    intro a b
    simp only [List.map_cons, nestedRender, ih, List.flatten_cons, render_append]

example : nestedWrites [62] [32, 32] false false [(true, [97]), (false, [10]), (true, [98])] =
    ([62, 32, 32, 97, 10, 62, 98], [1, 1, 1]) := by decide

/-! ### a Write that the underlying writer cuts short -/

example : ([97, 10, 98] : Bytes) ≠ [] := by decide

/-- A Write that the underlying writer cuts short (`buf` non-empty; the underlying writer takes
`k` bytes of what it is handed and reports an error).  It was handed the full rendering and took
its first `k` bytes; the count returned is exactly the number of the caller's bytes among them —
prefix bytes are not counted; it is never negative and never more than the argument; the error is
passed on.  `k` is unrestricted: beyond the length of what is handed down it behaves as that length.
(The model computes the count over `Int`, as the Go code computes over `int`, with `remain` going
below zero when the cut falls inside a prefix: non-negativity is proved here, not assumed by a type.)
Afterwards the writer's line state is the one at the cut (`cutState`; unchanged when nothing was
taken; "at a line start" after a cut inside a prefix), and `partialAfter` indexes no slice out of range. -/
theorem write_short_count (pre : Bytes) (p : Bool) (buf : Bytes) (h : buf ≠ []) (k : Nat) :
    (write pre p buf (some k)).handed = render pre (!p) buf ∧
    (write pre p buf (some k)).reached = (render pre (!p) buf).take k ∧
    (write pre p buf (some k)).n =
      callerBytesIn pre (!p) buf (min k (write pre p buf (some k)).handed.length) ∧
    (write pre p buf (some k)).n = callerBytesIn pre (!p) buf k ∧
    0 ≤ (write pre p buf (some k)).n ∧
    (write pre p buf (some k)).n ≤ buf.length ∧
    (write pre p buf (some k)).err = true ∧
    (write pre p buf (some k)).partial_ = stateOfCut (cutState pre (!p) buf k) ∧
    (write pre p buf (some k)).crash = false := by
  have hc := callerBytesIn_min pre (!p) buf k
  have hle := callerBytesIn_le pre (!p) buf k
  rw [write_some_eq pre p h k]
  refine ⟨rfl, rfl, ?_, rfl, ?_, ?_, rfl, rfl, rfl⟩
  · simp only [hc]
  · simp only; omega
  · simp only; omega

/-- An empty Write does nothing at all, whatever the underlying writer would do. -/
theorem write_empty (pre : Bytes) (p : Bool) (u : Under) :
    (write pre p [] u).handed = [] ∧ (write pre p [] u).reached = [] ∧ (write pre p [] u).n = 0 ∧
    (write pre p [] u).err = false ∧ (write pre p [] u).partial_ = p := by
  simp [write]

/-- A short write anywhere in a stream: after any successful Writes `chunks`, a Write of `buf`
that is cut after `k` bytes leaves the underlying writer with a prefix of the one-shot rendering
of the whole text; the failing call returns the number of bytes of `buf` inside that prefix, so
that all counts returned so far add up to the number of caller bytes that reached the underlying
writer. -/
theorem stream_short (pre : Bytes) (chunks : List Bytes) (buf : Bytes) (h : buf ≠ []) (k : Nat) :
    (writes pre false (chunks.map (·, none) ++ [(buf, some k)])).1 =
      (indent pre (chunks.flatten ++ buf)).take ((indent pre chunks.flatten).length + k) ∧
    (writes pre false (chunks.map (·, none) ++ [(buf, some k)])).2 =
      chunks.map (fun c => ((c.length : Int), false)) ++
        [(((callerBytesIn pre (atStartAfter true chunks.flatten) buf k : Nat) : Int), true)] ∧
    chunks.flatten.length + callerBytesIn pre (atStartAfter true chunks.flatten) buf k =
      callerBytesIn pre true (chunks.flatten ++ buf) ((indent pre chunks.flatten).length + k) := by
  have gen : ∀ (p : Bool) (cs : List Bytes),
      writes pre p (cs.map (·, none) ++ [(buf, some k)]) =
        (render pre (!p) cs.flatten ++ (render pre (atStartAfter (!p) cs.flatten) buf).take k,
         cs.map (fun c => ((c.length : Int), false)) ++
           [(((callerBytesIn pre (atStartAfter (!p) cs.flatten) buf k : Nat) : Int), true)]) := by
    intro p cs
    induction cs generalizing p with
    | nil => simp [writes, write_some_eq pre p h k, Lemmas.Indent.render_nil, atStartAfter]
    | cons c cs ih =>
      simp only [List.map_cons, List.cons_append, writes, write_none_eq, ih, Bool.not_not,
        List.flatten_cons, render_append, atStartAfter_append, List.append_assoc]
  rw [gen false chunks]
  refine ⟨?_, rfl, ?_⟩
  · simp only [oneshot_spec, Bool.not_false, render_append, List.take_length_add_append]
  · have hlen : (render pre true chunks.flatten).length = (tagged pre true chunks.flatten).length := by
      simp [render]
    simp only [oneshot_spec, callerBytesIn, tagged_append, hlen, List.take_length_add_append,
      List.countP_append, countP_tagged]

example : writes [62, 62] false [([97, 98], none), ([99, 100, 10, 101, 102], some 1)] =
    ([62, 62, 97, 98, 99], [(2, false), (1, true)]) := by decide
example : writes [62, 62] false [([97, 98], none), ([99, 100, 10, 101, 102], some 4)] =
    ([62, 62, 97, 98, 99, 100, 10, 62], [(2, false), (3, true)]) := by decide
example : writes [62, 62] false [([97, 98], none), ([99, 100, 10, 101, 102], some 6)] =
    ([62, 62, 97, 98, 99, 100, 10, 62, 62, 101], [(2, false), (4, true)]) := by decide
/-- a cut inside the prefix: the line has not got its prefix (`partialAfter` answers false) -/
example : write [62, 62] false [97, 10, 98] (some 1) =
    { partial_ := false, handed := [62, 62, 97, 10, 62, 62, 98], reached := [62], n := 0, err := true } := by decide
/-- exactly after the prefix / after `a` / after the line feed / nothing taken (state kept) -/
example : (write [62, 62] false [97, 10, 98] (some 2)).partial_ = true ∧
    (write [62, 62] false [97, 10, 98] (some 3)).partial_ = true ∧
    (write [62, 62] false [97, 10, 98] (some 4)).partial_ = false ∧
    (write [62, 62] false [97, 10, 98] (some 0)).partial_ = false ∧
    (write [62, 62] true [97, 10, 98] (some 0)).partial_ = true := by decide
example : callerBytesIn [62, 62] false [99, 100, 10, 101, 102] 4 = 3 := by decide

/-! ### histories: the caller goes on writing after a short write

`Spec.Indent.history` says what the property asks when the underlying writer cuts Writes short and
the caller goes on (resuming with the unwritten remainder, or with anything else): the caller bytes
accepted in successive calls are rendered as one text, so after a short write the line state is the
one AT THE CUT (`Spec.Indent.cutState`).  After a cut inside a prefix nothing is asked. -/

/-- The specification of histories, on histories without a short write, is the specification of
streams: the rendering of the concatenated text, every count the length of its argument. -/
theorem history_success (pre : Bytes) (a : Bool) (chunks : List Bytes) :
    observed (history pre a (chunks.map (·, none))) =
      (render pre a chunks.flatten, chunks.map (fun c => ((c.length : Int), false))) := by
  induction chunks generalizing a with
  | nil => simp [history, observed, Lemmas.Indent.render_nil]
  | cons c cs ih =>
    have := ih (atStartAfter a c)
    simp only [observed, Prod.mk.injEq] at this
    simp only [List.map_cons, history, observed, List.flatten_cons, render_append, this.1, this.2,
      List.map_cons]

/-- The writer follows the specification of histories, in full: for every prefix, writer state and
history (any Writes, any of them cut short by the underlying writer at any offset, the caller going
on with anything), on the part of the history the specification speaks about (`uptoBrokenCut`: all of
it, or up to and including the first cut inside a prefix), the bytes that reach the underlying
writer, the count and the error of every call — those after short writes included — and the writer's
line state after every call are the ones `Spec.Indent.history` gives. -/
theorem resume_spec (pre : Bytes) (p : Bool) (cs : List (Bytes × Under)) :
    writes pre p (uptoBrokenCut pre (!p) cs) = observed (history pre (!p) cs) ∧
    trace pre p (uptoBrokenCut pre (!p) cs) = (history pre (!p) cs).2.map (fun r => stateOfCut r.2.2) := by
  induction cs generalizing p with
  | nil => simp [writes, trace, history, observed, uptoBrokenCut]
  | cons c cs ih =>
    obtain ⟨buf, u⟩ := c
    cases u with
    | none =>
      have := ih (!(atStartAfter (!p) buf))
      simp only [Bool.not_not, observed] at this
      simp only [uptoBrokenCut, writes, trace, write_none_eq, history, observed, this.1, this.2,
        List.map_cons, stateOfCut, and_self]
    | some k =>
      by_cases hb : buf = []
      · subst hb
        have := ih p
        simp only [observed] at this
        simp [uptoBrokenCut, writes, trace, write, history, observed, this.1, this.2, stateOfCut]
      · cases hc : cutState pre (!p) buf k with
        | none =>
          simp [uptoBrokenCut, writes, trace, write_some_eq pre p hb k, history, observed, hb, hc,
            stateOfCut]
        | some a' =>
          have := ih (!a')
          simp only [Bool.not_not, observed] at this
          simp only [uptoBrokenCut, writes, trace, write_some_eq pre p hb k, history, List.isEmpty_iff,
            hb, if_false, hc, observed, this.1, this.2, List.map_cons, stateOfCut, and_self]

/-- The part of a history the specification speaks about has the same specification as the whole. -/
theorem history_upto (pre : Bytes) (a : Bool) (cs : List (Bytes × Under)) :
    history pre a (uptoBrokenCut pre a cs) = history pre a cs := by
  induction cs generalizing a with
  | nil => simp [uptoBrokenCut]
  | cons c cs ih =>
    obtain ⟨buf, u⟩ := c
    cases u with
    | none => simp only [uptoBrokenCut, history, ih]
    | some k =>
      by_cases hb : buf = []
      · subst hb; simp [uptoBrokenCut, history, ih]
      · cases hc : cutState pre a buf k with
        | none => simp [uptoBrokenCut, history, hb, hc]
        | some a' => simp [uptoBrokenCut, history, hb, hc, ih]

/-- Without a cut inside a prefix the whole history is specified, and followed. -/
theorem resume_spec_unbroken (pre : Bytes) (p : Bool) (cs : List (Bytes × Under))
    (h : uptoBrokenCut pre (!p) cs = cs) :
    writes pre p cs = observed (history pre (!p) cs) := by
  have := (resume_spec pre p cs).1
  rwa [h] at this

/-- What the specification of histories leaves with the underlying writer IS the property's sentence:
for every history without a cut inside a prefix (`finalState … = some st`), from any line state, the
underlying writer ends up with the rendering of the concatenation of the accepted caller bytes
(all of a successful Write, the counted bytes of a short one) as ONE text — followed by one prefix
exactly when the accepted text ends at a line start but the last cut fell after the prefix of the
next line (`pending`: that prefix is already out, the line has no byte yet).  For a fresh writer
the rendering is `indent.String(prefix, accepted)`.  With `resume_spec`, this is what the writer does. -/
theorem history_sink_is_rendering (pre : Bytes) (a : Bool) (cs : List (Bytes × Under)) (st : Bool)
    (h : finalState pre a cs = some st) :
    (history pre a cs).1 =
      render pre a (accepted pre a cs) ++ pending pre (atStartAfter a (accepted pre a cs)) st ∧
    (a = true → (history pre a cs).1 =
      indent pre (accepted pre a cs) ++ pending pre (atStartAfter a (accepted pre a cs)) st) := by
  have := Lemmas.Indent.history_sink pre a cs st h
  refine ⟨this, ?_⟩
  intro ha; subst ha
  rw [oneshot_spec]; exact this

/-- the writer itself, on a history without a cut inside a prefix: bytes accepted = one text -/
theorem writer_sink_is_rendering (pre : Bytes) (cs : List (Bytes × Under)) (st : Bool)
    (h : finalState pre true cs = some st) (hu : uptoBrokenCut pre true cs = cs) :
    (writes pre false cs).1 =
      indent pre (accepted pre true cs) ++ pending pre (atStartAfter true (accepted pre true cs)) st := by
  have h1 := resume_spec_unbroken pre false cs (by simpa using hu)
  have h2 := (history_sink_is_rendering pre true cs st h).2 rfl
  simp only [Bool.not_false, observed] at h1
  rw [h1]; exact h2

/-- non-vacuity: a cut inside the caller bytes, resumed; a cut exactly after a prefix (pending) -/
example : finalState [45, 45] true [([97, 98, 10], some 3), ([98, 10], none)] = some true ∧
    accepted [45, 45] true [([97, 98, 10], some 3), ([98, 10], none)] = [97, 98, 10] ∧
    (history [45, 45] true [([97, 98, 10], some 3), ([98, 10], none)]).1 = indent [45, 45] [97, 98, 10] := by decide
example : finalState [45, 45] true [([97, 10, 98], some 6)] = some false ∧
    accepted [45, 45] true [([97, 10, 98], some 6)] = [97, 10] ∧
    pending [45, 45] (atStartAfter true [97, 10]) false = [45, 45] ∧
    (history [45, 45] true [([97, 10, 98], some 6)]).1 = indent [45, 45] [97, 10] ++ [45, 45] := by decide
example : finalState [45, 45] true [([97, 10, 98], some 5)] = none := by decide

/-- the witness of the former defect: `Write("ab\n")` cut after `--a`, resumed with `Write("b\n")` -/
example : writes [45, 45] false [([97, 98, 10], some 3), ([98, 10], none)] =
    ([45, 45, 97, 98, 10], [(1, true), (2, false)]) := by decide
example : observed (history [45, 45] true [([97, 98, 10], some 3), ([98, 10], none)]) =
    ([45, 45, 97, 98, 10], [(1, true), (2, false)]) := by decide
example : uptoBrokenCut [45, 45] true [([97, 98, 10], some 3), ([98, 10], none)] =
    [([97, 98, 10], some 3), ([98, 10], none)] := by decide
/-- nothing got through, the caller tries again: the prefix is there -/
example : writes [45, 45] false [([97], some 0), ([97], none)] = ([45, 45, 97], [(0, true), (1, false)]) := by decide
/-- a cut at a line end inside the argument, and one exactly after a prefix -/
example : writes [45, 45] false [([97, 10, 98], some 4), ([98], none)] =
    ([45, 45, 97, 10, 45, 45, 98], [(2, true), (1, false)]) := by decide
example : writes [45, 45] false [([97, 10, 98], some 6), ([98], none)] =
    ([45, 45, 97, 10, 45, 45, 98], [(2, true), (1, false)]) := by decide
/-- a cut inside a prefix: the history is specified up to that call only -/
example : uptoBrokenCut [45, 45] true [([97, 10, 98], some 5), ([98], none)] = [([97, 10, 98], some 5)] := by decide
example : trace [45, 45] false [([97, 10, 98], some 5)] = [false] := by decide

end Goyang.Props.C20
