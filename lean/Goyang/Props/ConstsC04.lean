/-
Constants tie for C04 / C12 (see `Goyang/Gen/Consts.lean`, regenerated from the Go source on every run by
harness/cmd/extract-consts): the entry-kind names the models and the canonical dump spell out are the table of the Go source, in the same numbering.
-/
import Goyang.Gen.Consts
import Goyang.Model.Entry

namespace Goyang.Props.ConstsC04
open Goyang.Gen.Consts Goyang.Model

/-- the entry kinds of the model in the numbering of the Go enumeration -/
def kindsInOrder : List Kind :=
  [.leaf, .directory, .anydata, .anyxml, .case_, .choice, .input, .notification, .output, .deviate]

/-- `EntryKindToName` (the spelling `kind=` of the canonical dump uses) is `Kind.name` on the kinds in
enumeration order; the enumeration constants have these numbers -/
theorem entry_kinds_tied :
    «yang.EntryKindToName.map» = (List.range kindsInOrder.length).zipWith (fun (i : Nat) k => (Val.int i, Val.str k.name)) kindsInOrder ∧
    [«yang:LeafEntry», «yang:DirectoryEntry», «yang:AnyDataEntry», «yang:AnyXMLEntry», «yang:CaseEntry», «yang:ChoiceEntry»,
     «yang:InputEntry», «yang:NotificationEntry», «yang:OutputEntry», «yang:DeviateEntry»] = [0, 1, 2, 3, 4, 5, 6, 7, 8, 9] := by
  constructor <;> rfl

/-- every constructor of `Kind` is listed once -/
theorem kindsInOrder_complete (k : Kind) : k ∈ kindsInOrder := by
  cases k <;> simp [kindsInOrder]

/-- the tri-state constants (`config`, `mandatory`) -/
theorem tristate_tied : [«yang:TSUnset», «yang:TSTrue», «yang:TSFalse»] = [0, 1, 2] := by rfl

end Goyang.Props.ConstsC04
