/-
Constants tie for C05 (see `Goyang/Gen/Consts.lean`, regenerated from the Go source on every run).
-/
import Goyang.Gen.Consts
import Goyang.Model.ErrorSort

namespace Goyang.Props.ConstsC05
open Goyang.Gen.Consts Goyang.Model.ErrorSort

/-- the comparator of `errorSort` splits a message into this many fields -/
theorem error_split_count_tied : (errorSplitCount : Int) = «yang:errorSplitCount» := by
  decide

end Goyang.Props.ConstsC05
