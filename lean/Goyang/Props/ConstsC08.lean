/-
Constants tie for C08 (see `Goyang/Gen/Consts.lean`, regenerated from the Go source on every run by
harness/cmd/extract-consts): the deviate kinds the model accepts are the ones the Go source lists.
-/
import Goyang.Gen.Consts
import Goyang.Model.ToEntry

namespace Goyang.Props.ConstsC08
open Goyang.Gen.Consts Goyang.Model

/-- the deviate kinds the model accepts are the keys of `toDeviation`, in source order, and
`fromDeviation` is its inverse on them -/
theorem deviate_kinds_tied :
    «yang.toDeviation.map».map (·.1) = deviateKinds.map Val.str ∧
    «yang.toDeviation.map».map (fun p => (p.2, p.1)) = «yang.fromDeviation.map».take 4 ∧
    [«yang:DeviationUnset», «yang:DeviationNotSupported», «yang:DeviationAdd», «yang:DeviationReplace», «yang:DeviationDelete»]
      = [0, 1, 2, 3, 4] := by
  refine ⟨?_, ?_, ?_⟩ <;> rfl

end Goyang.Props.ConstsC08
