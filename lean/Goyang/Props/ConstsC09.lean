/-
Constants tie for C09 (see `Goyang/Gen/Consts.lean`, regenerated from the Go source on every run by
harness/cmd/extract-consts): the built-in type names of the type model are the kind names of the Go source.
-/
import Goyang.Gen.Consts
import Goyang.Model.Types

namespace Goyang.Props.ConstsC09
open Goyang.Gen.Consts Goyang.Model

/-- the built-in type names of the type model, in the order of the Go kind enumeration -/
def builtinNamesInKindOrder : List String :=
  ["int8", "int16", "int32", "int64", "uint8", "uint16", "uint32", "uint64", "binary", "bits", "boolean", "decimal64",
   "empty", "enumeration", "identityref", "instance-identifier", "leafref", "string", "union"]

/-- `TypeKindToName` is `none` followed by the model's built-in names numbered from 1, and
`TypeKindFromName` is its inverse -/
theorem type_kinds_tied :
    «yang.TypeKindToName.map» =
      (Val.int 0, Val.str "none") :: (List.range builtinNamesInKindOrder.length).zipWith (fun (i : Nat) n => (Val.int ((i : Int) + 1), Val.str n)) builtinNamesInKindOrder ∧
    «yang.TypeKindFromName.map» = «yang.TypeKindToName.map».map (fun p => (p.2, p.1)) := by
  constructor <;> rfl

/-- the built-in table of the type model has exactly these names (each once) -/
theorem builtin_table_names :
    ∀ n, n ∈ Types.builtinTable.map (·.1) ↔ n ∈ builtinNamesInKindOrder := by
  intro n
  simp only [Types.builtinTable, builtinNamesInKindOrder, List.map, List.mem_cons, List.not_mem_nil, or_false]
  grind

end Goyang.Props.ConstsC09
