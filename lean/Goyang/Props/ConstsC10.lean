/-
Constants tie for C10 (see `Goyang/Gen/Consts.lean`, regenerated from the Go source on every run):
the built-in ranges of the model are what the model's `parseRangesInt` computes from the string
literals the Go source hands to `mustParseRangesInt` today.
-/
import Goyang.Gen.Consts
import Goyang.Model.Range

namespace Goyang.Props.ConstsC10
open Goyang.Gen.Consts Goyang.Model.Range

/-- every built-in integer range variable is initialised by `mustParseRangesInt` on one literal -/
theorem builtin_ranges_initialised_by_parse :
    «yang.Int8Range.init».1 = "mustParseRangesInt" ∧ «yang.Int16Range.init».1 = "mustParseRangesInt" ∧
    «yang.Int32Range.init».1 = "mustParseRangesInt" ∧ «yang.Int64Range.init».1 = "mustParseRangesInt" ∧
    «yang.Uint8Range.init».1 = "mustParseRangesInt" ∧ «yang.Uint16Range.init».1 = "mustParseRangesInt" ∧
    «yang.Uint32Range.init».1 = "mustParseRangesInt" ∧ «yang.Uint64Range.init».1 = "mustParseRangesInt" := by
  refine ⟨?_, ?_, ?_, ?_, ?_, ?_, ?_, ?_⟩ <;> rfl

/-- the model's built-in ranges are the parse of exactly those literals -/
theorem builtin_ranges_tied :
    «yang.Int8Range.initBytes».map parseRangesInt = [.ok int8Range] ∧
    «yang.Int16Range.initBytes».map parseRangesInt = [.ok int16Range] ∧
    «yang.Int32Range.initBytes».map parseRangesInt = [.ok int32Range] ∧
    «yang.Int64Range.initBytes».map parseRangesInt = [.ok int64Range] ∧
    «yang.Uint8Range.initBytes».map parseRangesInt = [.ok uint8Range] ∧
    «yang.Uint16Range.initBytes».map parseRangesInt = [.ok uint16Range] ∧
    «yang.Uint32Range.initBytes».map parseRangesInt = [.ok uint32Range] ∧
    «yang.Uint64Range.initBytes».map parseRangesInt = [.ok uint64Range] := by
  refine ⟨?_, ?_, ?_, ?_, ?_, ?_, ?_, ?_⟩ <;> rfl

end Goyang.Props.ConstsC10
