/-
Constants tie for C14 (see `Goyang/Gen/Consts.lean`, regenerated from the Go source on every run by
harness/cmd/extract-consts).  Closed kernel evaluations: the limits the enumeration / bits model
uses are the constants the Go source declares today.
-/
import Goyang.Gen.Consts
import Goyang.Model.Enum

namespace Goyang.Props.ConstsC14
open Goyang.Gen.Consts Goyang.Model.Enum

/-- `MaxEnum`, `MinEnum`, `MaxBitfieldSize` of types_builtin.go are the limits of `Goyang.Model.Enum`. -/
theorem enum_limits_tied :
    MaxEnum = «yang:MaxEnum» ∧ MinEnum = «yang:MinEnum» ∧ MaxBitfieldSize = «yang:MaxBitfieldSize» := by
  decide

/-- … and they are the int32 range and the uint32 size the property text speaks of. -/
theorem enum_limits_are_int32_uint32 :
    «yang:MaxEnum» = 2 ^ 31 - 1 ∧ «yang:MinEnum» = -(2 ^ 31) ∧ «yang:MaxBitfieldSize» = 2 ^ 32 := by
  decide

end Goyang.Props.ConstsC14
