/-
Constants tie for C15 (see `Goyang/Gen/Consts.lean`, regenerated from the Go source on every run).
-/
import Goyang.Gen.Consts
import Goyang.Model.Number

namespace Goyang.Props.ConstsC15
open Goyang.Gen.Consts Goyang.Model.Number

/-- `AbsMinInt64`, `MaxInt64`, `MinInt64` are the 64-bit bounds of `Goyang.Model.Number`
(`H = 2^63`, `W = 2^64`). -/
theorem number_limits_tied :
    (H : Int) = «yang:AbsMinInt64» ∧ (H : Int) - 1 = «yang:MaxInt64» ∧ -(H : Int) = «yang:MinInt64» ∧
    (W : Int) = 2 * «yang:AbsMinInt64» := by
  decide

/-- `MaxFractionDigits` is the 18 the model's scale arithmetic and `space18` use. -/
theorem fraction_digits_tied :
    «yang:MaxFractionDigits» = 18 ∧ space18 = «yang:space18.bytes» ∧
    («yang:space18.bytes».length : Int) = «yang:MaxFractionDigits» := by
  decide

end Goyang.Props.ConstsC15
