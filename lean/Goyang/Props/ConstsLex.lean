/-
Constants tie for the lexer model (C02, C16; see `Goyang/Gen/Consts.lean`, regenerated from the Go
source on every run).
-/
import Goyang.Gen.Consts
import Goyang.Model.Lex

namespace Goyang.Props.ConstsLex
open Goyang.Gen.Consts Goyang.Model.Lex

/-- the error budget (`maxErrors`, also the capacity of the token channel) and the end-of-input rune -/
theorem lexer_limits_tied :
    (maxErrors : Int) = «yang:maxErrors» ∧ (eofRune : Int) = «yang:eof» := by
  decide

/-- the token codes are distinct and none of them is a byte (punctuation tokens use the byte itself) -/
theorem token_codes_distinct :
    [«yang:tEOF», «yang:tError», «yang:tString», «yang:tUnquoted»].Nodup ∧
    ∀ c ∈ [«yang:tEOF», «yang:tError», «yang:tString», «yang:tUnquoted»], c < 0 := by
  decide

end Goyang.Props.ConstsLex
