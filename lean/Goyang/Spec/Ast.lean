import Goyang.Model.AstTable
import Goyang.Model.Ast
/-
Specification for property C03 — "the AST mirrors the statement tree one-to-one or the build fails".

Written against the *spelling* of keywords (the statement's keyword bytes and the names of the
table), not against interned ids, and as a per-field description (filter the substatements by
keyword), not as the builder's left-to-right distribution loop.

 * `mirrors tbl parent a s` — node `a` is the image of statement `s`:
     - `a`'s type is the one registered for `s`'s keyword (`submodule` read as `module`),
       its name is the statement's argument, its source reference is `s`, its parent link is `parent`;
     - for every substatement field `f` of the type, `a`'s children under `f` are, in source
       order, the images (with parent link `a`'s type) of exactly the substatements of `s` whose
       keyword is `f`'s tag name; a single-valued (pointer) field holds at most one;
     - `a`'s extension list is, in source order, exactly the substatements whose keyword is not a
       field of the type and contains exactly one colon;
     - every substatement is one or the other (nothing is dropped); the four meta fields hold no children.
 * `accepts tbl s` — the statement tree has none of the defects that must be rejected: keyword unknown
   in its context, second occurrence of a single-valued substatement, absent mandatory
   substatement (`required`, or `required=KIND` for this keyword), a substatement that is mandatory
   for a different keyword only.
 * `wf tbl` — well-formedness of the table, discharged by kernel evaluation for the regenerated table.
-/
namespace Goyang.Spec.Ast
open Goyang.Model.Ast

/-! ### reading the table by spelling -/

/-- A keyword is *prefixed* when it contains exactly one colon. -/
def prefixed (kw : Bytes) : Bool := kw.count 58 == 1

/-- The spelling a keyword is read as (`submodule` ↦ `module`). -/
def aliasName (tbl : Schema) (kw : Bytes) : Bytes :=
  match tbl.aliases.find? (fun ab => tbl.kwName ab.1 == some kw) with
  | some ab =>
    match tbl.kwName ab.2 with
    | some n => n
    | none => kw
  | none => kw

/-- The node type registered for a keyword. -/
def typeFor (tbl : Schema) (kw : Bytes) : Option Nat :=
  (tbl.nameMap.find? (fun kt => tbl.kwName kt.1 == some (aliasName tbl kw))).map (·.2)

/-- `f` is a substatement field spelled `kw`. -/
def fieldIs (tbl : Schema) (f : Field) (kw : Bytes) : Bool :=
  f.kind.isSub && tbl.kwName f.tag == some kw

/-- The keyword is known in the context of type `T`. -/
def knownIn (tbl : Schema) (T : TypeDef) (kw : Bytes) : Bool := T.fields.any (fieldIs tbl · kw)

/-- The substatements that belong under field `f`. -/
def subsOf (tbl : Schema) (f : Field) (subs : List Stmt) : List Stmt :=
  subs.filter (fun ss => tbl.kwName f.tag == some ss.kw)

/-- The substatements that are extension statements in the context of `T`. -/
def extsOf (tbl : Schema) (T : TypeDef) (subs : List Stmt) : List Stmt :=
  subs.filter (fun ss => !knownIn tbl T ss.kw && prefixed ss.kw)

/-! ### Mirrors -/

mutual
def mirrors (tbl : Schema) (parent : Option Nat) : ANode → Stmt → Bool
  | .mk ty name src par fields exts, s =>
    match typeFor tbl s.kw with
    | none => false
    | some t =>
      match tbl.types[t]? with
      | none => false
      | some T =>
        ty == t && name == s.arg && decide (src = some s) && par == parent &&
        decide (exts = extsOf tbl T s.subs) &&
        s.subs.all (fun ss => knownIn tbl T ss.kw || prefixed ss.kw) &&
        mirrorsFields tbl t T.fields fields s.subs
/-- Field by field, in struct order. -/
def mirrorsFields (tbl : Schema) (t : Nat) : List Field → List (List ANode) → List Stmt → Bool
  | [], [], _ => true
  | f :: fs, kids :: rest, subs =>
    (if f.kind.isSub then
       mirrorsKids tbl t kids (subsOf tbl f subs) && (f.kind != .ptr || kids.length ≤ 1)
     else kids.isEmpty) &&
    mirrorsFields tbl t fs rest subs
  | _, _, _ => false
/-- Child by child, in source order. -/
def mirrorsKids (tbl : Schema) (t : Nat) : List ANode → List Stmt → Bool
  | [], [] => true
  | k :: ks, s :: ss => mirrors tbl (some t) k s && mirrorsKids tbl t ks ss
  | _, _ => false
end

/-- The node `a` built for the top-level statement `s` mirrors it. -/
def Mirrors (tbl : Schema) (a : ANode) (s : Stmt) : Prop := mirrors tbl none a s = true

instance (tbl : Schema) (a : ANode) (s : Stmt) : Decidable (Mirrors tbl a s) := by
  unfold Mirrors; infer_instance

/-- What `Modules.Parse` added mirrors the text: one node per top-level statement, in order, in
`SubModules` exactly for the keyword `submodule`. -/
def mirrorsTop (tbl : Schema) : List (Bool × ANode) → List Stmt → Bool
  | [], [] => true
  | (isSub, a) :: tops, s :: ss =>
    mirrors tbl none a s && (isSub == (s.kw == kwSubmodule)) && mirrorsTop tbl tops ss
  | _, _ => false

/-! ### Accepts: no defect that must be rejected -/

/-- The cardinality rule of one field for a statement spelled `kw`. -/
def cardOk (tbl : Schema) (kw : Bytes) (subs : List Stmt) (f : Field) : Bool :=
  let n := (subsOf tbl f subs).length
  !f.kind.isSub ||
    ((f.kind != .ptr || n ≤ 1) &&                                            -- single-valued
     (!f.required || 1 ≤ n) &&                                               -- `required`
     (!f.reqKinds.any (fun k => tbl.kwName k == some kw) || 1 ≤ n) &&        -- `required=KIND`, this keyword
     (!f.reqKinds.any (fun k => tbl.kwName k != some kw) || n == 0))         -- mandatory for another keyword only

mutual
def accepts (tbl : Schema) : Stmt → Bool
  | .mk kw _ _ _ _ subs =>
    match typeFor tbl kw with
    | none => false
    | some t =>
      match tbl.types[t]? with
      | none => false
      | some T => acceptsSubs tbl T subs && T.fields.all (cardOk tbl kw subs)
/-- Every substatement is known in the context (and acceptable itself) or prefixed. -/
def acceptsSubs (tbl : Schema) (T : TypeDef) : List Stmt → Bool
  | [] => true
  | ss :: rest =>
    (if knownIn tbl T ss.kw then accepts tbl ss else prefixed ss.kw) && acceptsSubs tbl T rest
end

/-- Every top-level statement is a module or submodule with an acceptable tree. -/
def acceptsTop (tbl : Schema) (ss : List Stmt) : Bool :=
  ss.all fun s => (s.kw == kwModule || s.kw == kwSubmodule) && accepts tbl s

/-- In the table, a statement spelled `P` must have a substatement spelled `C`
(`required`, or `required=P`). -/
def requiresB (tbl : Schema) (P C : Bytes) : Bool :=
  match typeFor tbl P with
  | none => false
  | some t =>
    match tbl.types[t]? with
    | none => false
    | some T =>
      T.fields.any fun f =>
        fieldIs tbl f C && (f.required || f.reqKinds.any (fun k => tbl.kwName k == some P))

/-- The mandatory substatements the property text names (RFC 7950: leaf/leaf-list/typedef need a
type, import and belongs-to a prefix, module a namespace and a prefix, submodule a belongs-to,
deviation a deviate), as (statement, substatement) spellings. -/
def namedMandatory : List (Bytes × Bytes) :=
  let b := fun (s : String) => s.toList.map (fun c => c.toNat.toUInt8)
  [(b "leaf", b "type"), (b "leaf-list", b "type"), (b "typedef", b "type"),
   (b "import", b "prefix"), (b "belongs-to", b "prefix"),
   (b "module", b "namespace"), (b "module", b "prefix"), (b "submodule", b "belongs-to"),
   (b "deviation", b "deviate")]

/-! ### well-formedness of the table -/

def nodupNat : List Nat → Bool
  | [] => true
  | x :: xs => !xs.contains x && nodupNat xs

def nodupBytes : List Bytes → Bool
  | [] => true
  | x :: xs => !xs.contains x && nodupBytes xs

def countKind (T : TypeDef) (k : FKind) : Nat := (T.fields.filter (·.kind = k)).length

/-- One struct type: implements `Node`; exactly one `Name`, `Statement`, `Parent` and `Ext` field;
substatement tags are in range, pairwise distinct, not aliased, and registered in `nameMap` with
exactly the field's element type; only substatement fields carry `required` / `required=KIND`. -/
def wfType (tbl : Schema) (T : TypeDef) : Bool :=
  T.isNode &&
  T.name < tbl.typeNames.length && T.kind0 < tbl.kwNames.length &&
  T.kindIf.all (fun ik => ik.1 < T.fields.length && ik.2 < tbl.kwNames.length) &&
  countKind T .str == 1 && countKind T .stmt == 1 && countKind T .iface == 1 && countKind T .ext == 1 &&
  nodupNat ((T.fields.filter (·.kind.isSub)).map (·.tag)) &&
  T.fields.all (fun f =>
    f.tag < tbl.kwNames.length && f.reqKinds.all (· < tbl.kwNames.length) &&
    (f.kind.isSub || (!f.required && f.reqKinds.isEmpty)) &&
    (!f.kind.isSub ||
      (f.elem < tbl.types.length && tbl.alias f.tag == f.tag && tbl.typeOf f.tag == some f.elem)))

/-- Only the keyword `module` (and what is aliased to it, spelled `submodule`) yields the type
`Modules.add` accepts; no other type can report the kind `module` or `submodule`; the module type
reports `submodule` exactly when its `required=submodule` field is set. -/
def wfTop (tbl : Schema) : Bool :=
  tbl.moduleTy < tbl.types.length &&
  tbl.nameMap.all (fun kt => kt.2 != tbl.moduleTy || tbl.kwName kt.1 == some kwModule) &&
  tbl.aliases.all (fun ab => tbl.kwName ab.2 != some kwModule || tbl.kwName ab.1 == some kwSubmodule) &&
  (tbl.types.zipIdx.all fun (T, t) =>
    t == tbl.moduleTy ||
      (([T.kind0] ++ T.kindIf.map (·.2)).all fun k =>
        tbl.kwName k != some kwModule && tbl.kwName k != some kwSubmodule)) &&
  (match tbl.types[tbl.moduleTy]? with
   | none => false
   | some T =>
     tbl.kwName T.kind0 == some kwModule &&
     match T.kindIf with
     | [(i, k)] =>
       tbl.kwName k == some kwSubmodule &&
       (match T.fields[i]? with
        | some f => f.kind == .ptr && f.reqKinds.all (fun r => tbl.kwName r == some kwSubmodule) && !f.reqKinds.isEmpty
        | none => false)
     | _ => false)

def wf (tbl : Schema) : Bool :=
  nodupBytes tbl.kwNames &&
  nodupNat (tbl.nameMap.map (·.1)) &&
  tbl.nameMap.all (fun kt => kt.1 < tbl.kwNames.length && kt.2 < tbl.types.length) &&
  tbl.aliases.all (fun ab => ab.1 < tbl.kwNames.length && ab.2 < tbl.kwNames.length) &&
  nodupNat (tbl.aliases.map (·.1)) &&
  tbl.types.all (wfType tbl) &&
  wfTop tbl

/-- Well-formedness of a tag table (decidable; `Goyang.Props.C03.gen_table_wf` proves it for the
table regenerated from the source by kernel evaluation). -/
def WF (tbl : Schema) : Prop := wf tbl = true

instance (tbl : Schema) : Decidable (WF tbl) := by unfold WF; infer_instance

end Goyang.Spec.Ast
