import Goyang.Model.Process
/-
C07 — reference semantics of `augment`, written on the *flat view* of a schema forest and
without looking at how `Modules.Process` schedules the work.

Flat view.  A schema node is addressed by the tree it lives in and the list of node names that
lead to it from the root (`NLoc`; the prefixes of an absolute schema node identifier only select
the tree).  The children of an ordinary node are its `Dir` entries by name; the children of an
rpc / action node are `input` and `output`, which exist whether or not the source wrote them
(RFC 7950 7.14: an rpc has an input and an output node; goyang creates the entry lazily, the
specification treats it as always there).  `viewOf f l d` says: location `l` exists in forest `f`
and carries data `d` (everything the entry records except its error list).

One augment step.  A resolved augment (`Aug`) knows its target location, the namespace of the
module that wrote it and the nodes its body defines.  It is *applicable* in a view when the
target exists there and is a node that can have children; it *collides* when the target already
has a child with the name of one of the body's nodes; applying it (`graft`) adds, below the
target, a copy of every node of the body — the root of each copy stamped with the augmenting
module's namespace — and changes nothing else.

Runs.  A *run* applies pending augments one after the other, each applicable and collision-free
when applied, none twice.  It is *complete* when no augment that is still pending is applicable
at the end.  `IsResult` = the view at the end of a complete run together with the set of augments
left unapplied; Lemmas/AugmentConfl.lean proves that this is a function of the pending *set*
(`result_unique`): every complete run ends in the same view and leaves the same augments, and if
one complete collision-free run exists no order of application can ever reach a collision.
-/
namespace Goyang.Spec.Augment
open Goyang.Model

/-- Node names from the root of a tree (prefixes stripped). -/
abbrev NPath := List String
/-- A schema location: tree (module seq) and names from its root. -/
abbrev NLoc := Nat × NPath

/-- What the property observes of a node: all recorded data except the error list (errors are
accounted for separately, as the set `Process` returns). -/
def nodeData (d : EData) : EData := { d with errors := [] }

/-- RFC 7950 7.17 as the repaired library reads it: leaf, leaf-list (no child directory), anydata
and anyxml nodes cannot be augmented, and neither can an rpc / action node itself (its only
children are `input` and `output`, which can). -/
def canHaveChildren (d : EData) : Bool := d.hasDir && d.kind != .anydata && d.kind != .anyxml && !d.isRpc

/-- The schema child `k` of node `e`. -/
def kid (e : Entry) (k : String) : Option Entry :=
  if e.d.isRpc then
    if k == "input" then some (e.inp.head?.getD (implicitIO e true))
    else if k == "output" then some (e.out.head?.getD (implicitIO e false))
    else none
  else e.child? k

/-- The node named by `p` below `e`. -/
def walk (e : Entry) : NPath → Option Entry
  | [] => some e
  | k :: p => (kid e k).bind fun c => walk c p

/-- The node at a location of a forest. -/
def nodeAt (f : Forest) (l : NLoc) : Option Entry := (f.tree? l.1).bind fun root => walk root l.2

/-- A flat view: which data sits at which location. -/
abbrev View := NLoc → EData → Prop

def viewOf (f : Forest) : View := fun l d => ∃ e, nodeAt f l = some e ∧ nodeData e.d = d

/-- `l` exists in the view. -/
def View.has (v : View) (l : NLoc) : Prop := ∃ d, v l d

/-- The copy of a body node that an augment of a module with namespace `ns` grafts. -/
def stamp (ns : String) (c : Entry) : Entry := c.withD fun d => { d with ns := some ns }

/-- A resolved augment statement: the tree of the (sub)module that wrote it, the entry of the
statement (its `Dir` = the nodes it defines, `uses` expanded), the location its argument names
(`none`: the first prefix denotes no loaded module) and the namespace of the writing module. -/
structure Aug where
  owner : Nat
  body : Entry
  target : Option NLoc
  ns : String

namespace Aug

/-- Names of the nodes the augment defines. -/
def roots (a : Aug) : List String := a.body.dir.map (·.name)

/-- Everything the augment adds: below `target/c.name`, for each body node `c`, the subtree of
the stamped copy of `c`. -/
def adds (a : Aug) : View := fun l d =>
  ∃ t, a.target = some t ∧ l.1 = t.1 ∧
    ∃ c ∈ a.body.dir, ∃ r, l.2 = t.2 ++ c.name :: r ∧ ∃ e, walk (stamp a.ns c) r = some e ∧ nodeData e.d = d

/-- Location of the grafted copy of the body node named `k`. -/
def rootLoc (t : NLoc) (k : String) : NLoc := (t.1, t.2 ++ [k])

def Applicable (a : Aug) (v : View) : Prop :=
  ∃ t, a.target = some t ∧ ∃ d, v t d ∧ canHaveChildren d = true

def Collides (a : Aug) (v : View) : Prop :=
  ∃ t, a.target = some t ∧ ∃ k ∈ a.roots, v.has (rootLoc t k)

end Aug

/-- One augment step on the flat view (defined for an applicable augment). -/
def graft (v : View) (a : Aug) : View := fun l d => a.adds l d ∨ v l d

/-- The view after applying a sequence of augments, oldest first. -/
def after (v : View) : List Aug → View
  | [] => v
  | a :: seq => after (graft v a) seq

/-- `seq` is a collision-free run from `v` over the pending set `P`: every member is pending,
applicable and collision-free when its turn comes, and is applied once. -/
def Valid (P : Aug → Prop) (v : View) : List Aug → Prop
  | [] => True
  | a :: seq => P a ∧ a.Applicable v ∧ ¬ a.Collides v ∧ a ∉ seq ∧ Valid P (graft v a) seq

/-- Nothing is left to do: no pending augment outside `seq` is applicable at the end. -/
def Complete (P : Aug → Prop) (v : View) (seq : List Aug) : Prop :=
  ∀ a, P a → a ∉ seq → ¬ a.Applicable (after v seq)

/-- `Spec.result`: final view and set of unapplied augments of a complete collision-free run. -/
def IsResult (P : Aug → Prop) (v : View) (final : View) (unapplied : Aug → Prop) : Prop :=
  ∃ seq, Valid P v seq ∧ Complete P v seq ∧ (∀ l d, final l d ↔ after v seq l d) ∧
    (∀ a, unapplied a ↔ (P a ∧ a ∉ seq))

/-! ### the flat view as a list (executable) -/

mutual
/-- All locations below `e` with their data, `e` itself first. When the names in every `Dir` are
distinct (which `Entry.add` and `Entry.merge` maintain) this lists exactly the view
(Lemmas/AugmentTree.lean, `mem_paths`). -/
def paths : Entry → List (NPath × EData)
  | .mk d c i o =>
    ([], nodeData d) ::
      (if d.isRpc then
        pathsIO "input" (nodeData (implicitIO (.mk d c i o) true).d) i ++
        pathsIO "output" (nodeData (implicitIO (.mk d c i o) false).d) o
      else pathsL c)
def pathsL : List Entry → List (NPath × EData)
  | [] => []
  | e :: es => (paths e).map (fun x => (e.name :: x.1, x.2)) ++ pathsL es
def pathsIO (k : String) (impl : EData) : List Entry → List (NPath × EData)
  | [] => [([k], impl)]
  | e :: _ => (paths e).map (fun x => (k :: x.1, x.2))
end

/-- The paths of a subtree moved below `pre`. -/
def shift (pre : NPath) (l : List (NPath × EData)) : List (NPath × EData) := l.map fun x => (pre ++ x.1, x.2)

end Goyang.Spec.Augment
