import Goyang.Model.Process
/-
Specification for C12 — config inheritance and namespace attribution follow the instantiated tree.

Two independent readings, both written *declaratively* (no walk with an accumulator, which is how
the model and the Go code compute):

(a) `readOnly cs`, over the list `cs` of (config, kind) pairs of the nodes on the path from the
    root to the node (both included): the node is read-only exactly when the **nearest** node
    that has an explicit config statement says `false`, or when some node on the path is an rpc /
    action `output`.  `ReadOnly cs` is the same sentence as a proposition with the decomposition
    of the path spelled out; the two are proved equivalent (Lemmas/ConfigNs `readOnly_iff`).
    The property's quantifier excludes config statements inside rpc/action/notification (RFC 7950
    ignores them there); `NoConfigTrueBelowOutput` is the (weaker) exclusion the theorem needs, and
    `readOnlyExact` is what the code computes on *all* inputs, the excluded ones included.

(b) `Built reg forest prov`: provenance.  `prov loc = some m` says "the node at `loc` was placed by
    the text of (sub)module `m`" and is defined inductively over how the forest is built:
      * `init`   — trees as `ToEntry` makes them (own body, bodies of included submodules and
                   contents of used groupings, all brought in by `merge` without a stamp): every
                   node of tree `id` is placed by module `id`'s text — grouping content belongs to
                   the user, at every nesting depth, because the user's tree is where it is copied;
      * `graft`  — an augment of module `by`: the children of the augment's entry that are added
                   under the target, and everything below them, are placed by `by`; all other
                   nodes keep their placer;
      * `fix`    — `FixChoice`: nodes keep their placer under the path translation that accounts
                   for the inserted cases; the library-inserted case nodes themselves are placed
                   by nobody (`none`): the property does not speak about them.
    The namespace the property demands is `ownerNs reg m`: the namespace statement of the module
    that (sub)module `m` belongs to.
-/
namespace Goyang.Spec.ConfigNs
open Goyang.Model

/-! ### (a) read-only -/

/-- What the property reads off a node: its config statement and its kind. -/
abbrev CK := Tri × Kind

def ck (e : Entry) : CK := (e.d.config, e.d.kind)

/-- One step down from `e`. -/
def next (e : Entry) : Step → Option Entry
  | .child k => e.child? k
  | .input => e.inp.head?
  | .output => e.out.head?

/-- (config, kind) of the nodes on the path `p` from `e` (root first, `e` included), as far as the
path exists.  For an existing path this is the node at every prefix of `p`
(Lemmas/ConfigNs `configsAlong_getElem?`). -/
def configsAlong (e : Entry) : Path → List CK
  | [] => [ck e]
  | s :: rest => ck e :: (match next e s with | some c => configsAlong c rest | none => [])

/-- The config value of the nearest node (from the end of the path upwards) that has an explicit
config statement. -/
def nearestExplicit (cs : List CK) : Option Tri := (cs.reverse.find? (·.1 != .unset)).map (·.1)

/-- The path passes an rpc / action output (the output node itself included). -/
def inOutput (cs : List CK) : Bool := cs.any (·.2 == .output)

/-- **The property.** -/
def readOnly (cs : List CK) : Bool := nearestExplicit cs == some .false_ || inOutput cs

/-- The same sentence with the path decomposition written out: there is a node with `config
false` such that no node after it has a config statement, or there is an output node. -/
def ReadOnly (cs : List CK) : Prop :=
  (∃ pre c post, cs = pre ++ c :: post ∧ c.1 = .false_ ∧ ∀ y ∈ post, y.1 = .unset) ∨
  (∃ c ∈ cs, c.2 = .output)

/-- The exclusion under which the code follows the property (weaker than the property's own
"no config statement inside rpc, action or notification"): no node strictly below an output node
says `config true`. -/
def NoConfigTrueBelowOutput (cs : List CK) : Prop :=
  ∀ pre c post, cs = pre ++ c :: post → c.2 = .output → ∀ y ∈ post, y.1 ≠ .true_

/-- A node that settles the question on its own: an output, or a node with a config statement. -/
def decisive (c : CK) : Bool := c.2 == .output || c.1 != .unset
/-- … and what it says. -/
def verdict (c : CK) : Bool := c.2 == .output || c.1 == .false_

/-- What the code computes on every input: the nearest decisive node decides (an output node
counts as `config false` *at that node*, so a `config true` written below an output wins). -/
def readOnlyExact (cs : List CK) : Bool := ((cs.reverse.find? decisive).map verdict).getD false

/-! ### (b) namespace: grafts and provenance -/

/-- Namespace stamps of the nodes strictly below `e` along `p` (as far as the path exists).  A
stamped node is the root of a graft. -/
def stampsAlong (e : Entry) : Path → List (Option String)
  | [] => []
  | s :: rest => match next e s with | some c => c.d.ns :: stampsAlong c rest | none => []

/-- The stamp of the deepest graft root on the path. -/
def deepestGraft (ss : List (Option String)) : Option String := ss.reverse.findSome? id

/-- Namespace of the module that (sub)module `id` belongs to ("" when it or its owner is not
loaded, or has no namespace statement). -/
def ownerNs (reg : Registry) (id : Nat) : String :=
  match reg.byId id with
  | none => ""
  | some m =>
    match reg.owner m with
    | some o => (o.stmt.argOf? "namespace").getD ""
    | none => ""

/-- Tree-level reading of the namespace rule: the deepest graft root on the path decides, else the
tree's module (its owner, for a submodule). -/
def namespaceOf (reg : Registry) (f : Forest) (loc : Loc) : String :=
  match f.tree? loc.1 with
  | none => ""
  | some root =>
    match deepestGraft (stampsAlong root loc.2) with
    | some n => n
    | none => ownerNs reg loc.1

mutual
/-- No node of the tree carries a namespace stamp. -/
def noStamp : Entry → Bool
  | .mk d c i o => d.ns.isNone && noStampL c && noStampL i && noStampL o
def noStampL : List Entry → Bool
  | [] => true
  | e :: es => noStamp e && noStampL es
end

/-- No node strictly below `e` carries a stamp. -/
def noStampBelow (e : Entry) : Bool := noStampL e.dir && noStampL e.inp && noStampL e.out

/-- Go: what `merge` does to each copied child: `v.namespace = namespace` when one is given. -/
def stamp (ns : Option String) (v : Entry) : Entry :=
  match ns with
  | some n => v.withD fun d => { d with ns := some n }
  | none => v

/-- The nodes a graft of `a` under the node `te` at `(t, path)` adds: the children of `a` whose
name is free in `te`, and everything below them. -/
def NewBelow (t : Nat) (path : Path) (te a : Entry) (loc : Loc) : Prop :=
  loc.1 = t ∧ ∃ k r, loc.2 = path ++ Step.child k :: r ∧ te.child? k = none ∧ (a.child? k).isSome

/-- Path translation of `FixChoice`: in front of every step to a non-case child of an error-free
choice the step to the inserted case of the same name is added (steps that do not exist are left
alone). -/
def liftPath (e : Entry) : Path → Path
  | [] => []
  | .child k :: rest =>
    match e.child? k with
    | none => .child k :: rest
    | some x =>
      (if e.d.kind == .choice && e.d.errors.isEmpty && x.d.kind != .case_ then [Step.child k, Step.child k]
       else [Step.child k]) ++ liftPath x rest
  | .input :: rest => .input :: (match e.inp.head? with | some x => liftPath x rest | none => rest)
  | .output :: rest => .output :: (match e.out.head? with | some x => liftPath x rest | none => rest)

/-- `FixChoice` on every tree. -/
def fixAll (f : Forest) : Forest := { trees := f.trees.map fun (i, e) => (i, fixChoice e) }

/-- **Provenance.**  `Built reg f prov`: the forest `f` can be built by conversion, grafts and
`FixChoice`, and `prov` says which (sub)module's text placed each node (`none`: a case node the
library inserted). -/
inductive Built (reg : Registry) : Forest → (Loc → Option Nat) → Prop
  | init {f : Forest} :
      (∀ id t, f.tree? id = some t → noStampBelow t = true) →
      Built reg f (fun loc => some loc.1)
  | graft {f : Forest} {prov prov' : Loc → Option Nat} {by_ t : Nat} {path : Path} {root te a : Entry} :
      Built reg f prov →
      f.tree? t = some root → root.getAt path = some te →
      noStampL a.dir = true →
      (∀ loc, NewBelow t path te a loc → prov' loc = some by_) →
      (∀ loc, ¬ NewBelow t path te a loc → prov' loc = prov loc) →
      Built reg (f.setTree t (root.updateAt path fun te => te.merge (some (ownerNs reg by_)) a)) prov'
  | fix {f : Forest} {prov prov' : Loc → Option Nat} :
      Built reg f prov →
      (∀ id root p, f.tree? id = some root → (root.getAt p).isSome →
          prov' (id, liftPath root p) = prov (id, p)) →
      (∀ loc', (¬ ∃ root p, f.tree? loc'.1 = some root ∧ (root.getAt p).isSome ∧ loc'.2 = liftPath root p) →
          prov' loc' = none) →
      Built reg (fixAll f) prov'

/-- Go: `Modules.FindModuleByNamespace(ns)` as a function of the namespace asked for (the name of
the module found, `none` = error).  `Model.instantiatingModuleAt` is this function applied to
`namespaceAt` (Lemmas/ConfigNs `instantiatingModuleAt_eq_findByNamespace`).  The comparison with
the declared namespaces is equality of strings: a spelling that no loaded module declares exactly
(other letter case, a trailing slash or blank, another percent-encoding, a prefix) finds nothing. -/
def findByNamespace (reg : Registry) (ns : String) : Option String :=
  match reg.distinctModules.filter (fun m => (m.stmt.argOf? "namespace").getD "" == ns) with
  | [] => none
  | m :: rest => if rest.all (·.name == m.name) then some m.name else none

end Goyang.Spec.ConfigNs
