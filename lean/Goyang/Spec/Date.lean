/-
Revision dates `YYYY-MM-DD` (RFC 7950 `date-arg-str`: 4, 2 and 2 decimal digits) and their
order as dates: year, month, day compared as numbers.  Shared by the specifications of C13 (a)
and (b).  Core Lean only.
-/
namespace Goyang.Spec

structure Date where
  y : Nat
  m : Nat
  d : Nat
  deriving DecidableEq, Repr

def isDigit (c : Char) : Bool := 48 ≤ c.toNat && c.toNat ≤ 57

/-- Value of a string of decimal digits. -/
def digitsVal (ds : List Char) : Nat := ds.foldl (fun n c => 10 * n + (c.toNat - 48)) 0

/-- `YYYY-MM-DD`. -/
def parseDate : List Char → Option Date
  | [y1, y2, y3, y4, s1, m1, m2, s2, d1, d2] =>
    if s1 = '-' ∧ s2 = '-' ∧ [y1, y2, y3, y4, m1, m2, d1, d2].all isDigit then
      some ⟨digitsVal [y1, y2, y3, y4], digitsVal [m1, m2], digitsVal [d1, d2]⟩
    else none
  | _ => none

/-- Strictly earlier. -/
def Date.lt (a b : Date) : Bool :=
  a.y < b.y || (a.y == b.y && (a.m < b.m || (a.m == b.m && a.d < b.d)))

/-- Not later. -/
def Date.le (a b : Date) : Bool := !b.lt a

end Goyang.Spec
