/-
Specification for C08, target resolution: which node — if any — the argument of a `deviation`
statement names, and what the property demands of a deviation that names none.

  RFC 7950 §7.20.3   "The argument is a string that identifies a node in the schema tree.  The
                     argument's syntax is formally defined by the rule 'absolute-schema-nodeid'."
  §6.5               a schema node identifier "identifies a node in the schema tree"; the absolute
                     form is a sequence of steps `/ node-identifier`, each step naming a *child* of
                     the schema node the steps before it name (the first step: a top-level node of the
                     module its prefix denotes).
  §7.9               choice and case nodes exist in the schema tree (not in the data tree): they are
                     steps of a schema node identifier like any other.
  §7.9.2             short-hand case: "the case node still exists in the schema tree, and its
                     identifier is the same as the identifier of the child node".
  §7.14.2 / §7.15    an `rpc` / `action` always has an `input` and an `output` child, written or not.

Hence: a path that leaves out a choice or case step, that names a descendant as though it were a
child, or that steps through a case name without its choice, names NO node.  The property (C08):
"A deviation that cannot be applied (missing target, …) is reported as an error", and "every node
that no deviation targets is identical to what the same modules yield without the deviating module":
a deviation whose argument names no node must be reported and must change nothing.

The schema tree is given extensionally, the way the canonical dump of a processed module shows it:
one `SNode` per node with the names from the root (the module name first).  Nothing here looks at
how the library walks a path.

Core Lean only; executable (driver ops `spec.target`, `spec.missing`, `spec.refused`).
-/
namespace Goyang.Spec.DevTarget

/-- One node of a processed schema tree: the names from the root of the tree down to the node
(first the module name), and whether the node is an rpc or action. -/
structure SNode where
  path : List String
  rpc : Bool
  deriving Repr, DecidableEq

/-- `name` is a child of the node at `parent`: a node of the tree sits exactly one step below
`parent` under that name — or `parent` is an rpc / action and the name is `input` / `output`. -/
def isChild (tree : List SNode) (parent : List String) (name : String) : Bool :=
  tree.any (fun n => n.path == parent ++ [name]) ||
  ((name == "input" || name == "output") && tree.any (fun n => n.rpc && n.path == parent))

/-- Follow the steps from the node at `cur`; `none` = every step named a child, `some i` = step
number `i` (counted from `i0`) is the first that names no child of the node reached so far. -/
def walk (tree : List SNode) : List String → List String → Nat → Option Nat
  | _, [], _ => none
  | cur, s :: rest, i0 => if isChild tree cur s then walk tree (cur ++ [s]) rest (i0 + 1) else some i0

/-- The verdict on a deviation argument whose first prefix denotes the module `root` (the tree) and
whose steps carry the names `steps`: `none` = it names a node (the one at `root :: steps`), `some i`
= it names nothing, step `i` being the first without a node.  An argument without steps names nothing. -/
def resolve (tree : List SNode) (root : String) (steps : List String) : Option Nat :=
  if steps.isEmpty then some 0 else walk tree [root] steps 0

def names (tree : List SNode) (root : String) (steps : List String) : Bool :=
  (resolve tree root steps).isNone

/-- What the property demands of a run whose deviating modules hold a deviation that names no node:
errors are returned.  (`changed` = number of schema nodes outside every deviation target that differ
from the run without the deviating modules; a run that returns errors returns no trees, so it is
counted only for runs that did not.)  `true` = the demand is met. -/
def missingOk (reported : Bool) (changed : Nat) : Bool := reported && changed == 0

/-- Which of the two clauses is broken (for the message). -/
def missingVerdict (reported : Bool) (changed : Nat) : String :=
  if missingOk reported changed then "holds"
  else if !reported && changed != 0 then "violates:not-reported+changed"
  else if !reported then "violates:not-reported"
  else "violates:changed"

/-- The converse demand ("after processing, each deviation is reflected at its target"): a deviation
whose argument names a node of the tree that the same modules yield WITHOUT the deviating modules
(`names`, on the final tree of that run: every augment stage included) is applicable as far as its
target goes, so a run that reports a missing target although EVERY deviation of the set names a node
(`allNamed`; targets removed by an earlier not-supported of the same set do not count as named) has
refused an applicable deviation; and when moreover no deviate statement of the set breaks a condition
of §7.20.3.2 (`allowed`), ANY reported error is such a refusal.
  `noTarget` = the run reports an error of the missing-target class, `anyErr` = the run reports errors. -/
def refusedVerdict (allNamed allowed noTarget anyErr : Bool) : String :=
  if allNamed && noTarget then "violates:target-exists-but-reported-missing"
  else if allNamed && allowed && anyErr then "violates:applicable-deviation-refused"
  else "holds"

example : refusedVerdict true true true true = "violates:target-exists-but-reported-missing" := by decide
example : refusedVerdict true false true true = "violates:target-exists-but-reported-missing" := by decide
example : refusedVerdict true true false true = "violates:applicable-deviation-refused" := by decide
example : refusedVerdict true false false true = "holds" := by decide   -- some §7.20.3.2 condition is broken
example : refusedVerdict false true true true = "holds" := by decide    -- some deviation names no node
example : refusedVerdict true true false false = "holds" := by decide

/-! Worked examples (the base of the seeded demonstration): `top { mtu; choice transport { case tcp
{ port } ; container udp } }`. -/
section examples
private def ex : List SNode :=
  [⟨["base", "top"], false⟩, ⟨["base", "top", "mtu"], false⟩, ⟨["base", "top", "transport"], false⟩,
   ⟨["base", "top", "transport", "tcp"], false⟩, ⟨["base", "top", "transport", "tcp", "port"], false⟩,
   ⟨["base", "top", "transport", "udp"], false⟩, ⟨["base", "top", "transport", "udp", "udp"], false⟩,
   ⟨["base", "top", "transport", "udp", "udp", "checksum"], false⟩, ⟨["base", "op"], true⟩]

example : resolve ex "base" ["top", "transport", "tcp", "port"] = none := by decide
example : resolve ex "base" ["top", "port"] = some 1 := by decide                -- choice and case left out
example : resolve ex "base" ["top", "transport", "port"] = some 2 := by decide   -- case left out
example : resolve ex "base" ["top", "tcp", "port"] = some 1 := by decide         -- case without its choice
example : resolve ex "base" ["top", "udp"] = some 1 := by decide                 -- short-hand case left out
example : resolve ex "base" ["top", "transport", "udp", "checksum"] = some 3 := by decide
example : resolve ex "base" ["top", "checksum"] = some 1 := by decide            -- descendant as child
example : resolve ex "base" ["op", "input"] = none := by decide                  -- always there
example : resolve ex "base" ["top", "input"] = some 1 := by decide
example : resolve ex "base" [] = some 0 := by decide
end examples

end Goyang.Spec.DevTarget
