/-
Specification for C08: RFC 7950 §7.20.3 (`deviation` / `deviate`), transcribed for the properties
the claim lists: config, default, mandatory, min-elements, max-elements, and for add / replace also
units and type.  `must` and `unique` are outside the claim (the library parses but does not apply
them); so are `units` and `type` below `deviate delete`.

The transcription is declarative: a deviate statement has *preconditions* (`violations`: every
condition of §7.20.3.2 that the statement breaks on the given node, each with its reason) and an
*effect* (`effect`: the node's properties afterwards, defined whether or not the statement was
legal).  `deviate` puts the two together.

  §7.20.3.2  add            "adds properties to the target node. … If a property can only appear once,
                            the property MUST NOT exist in the target node."  (a leaf-list may carry
                            several defaults, so its defaults accumulate)
             replace        "replaces properties of the target node. … The properties to replace MUST
                            exist in the target node."
             delete         "deletes properties from the target node. … The substatement's keyword
                            MUST match a corresponding keyword in the target node, and the argument's
                            string MUST be equal to the corresponding keyword's argument string in the
                            target node."
             not-supported  "the target node is not implemented by this server" — the node (with its
                            subtree) disappears; with the library's ignore-not-supported option it stays.
  §7.7.5/6   min-elements / max-elements belong to `list` and `leaf-list` only; without the statement the
             bound is 0 / unbounded.

Reading of "exists" for the element bounds.  A schema node is seen through its effective values
(§7.7.5 "If no such statement is present, it defaults to zero", §7.7.6 "… defaults to 'unbounded'"): a bound
equal to that default is treated as not being there (add may set it, replace has nothing to replace), and
`delete` demands that the *effective* value equals the argument.  The syntactic reading would in addition
reject `delete { min-elements 0; }` on a node that has no `min-elements` statement; the schema tree does
not record whether a bound equal to its default was written, and the result is the same tree either way.

Core Lean only; executable (used by the driver op `spec.deviate`).
-/
namespace Goyang.Spec.Deviate

/-- The properties §7.20.3 can change, of one schema node. -/
structure NodeProps where
  /-- list or leaf-list: the only nodes that take element bounds -/
  listLike : Bool := false
  /-- leaf-list: the only node whose default may hold several values -/
  leafList : Bool := false
  config : Option Bool := none
  mandatory : Option Bool := none
  default : List String := []
  /-- effective min-elements (0 = none) -/
  min : Nat := 0
  /-- effective max-elements (`none` = unbounded) -/
  max : Option Nat := none
  units : Option String := none
  /-- the node's type, by its canonical rendering -/
  type : Option String := none
  deriving Repr, DecidableEq, Inhabited

inductive DevKind | add | replace | delete | notSupported | other
  deriving Repr, DecidableEq, Inhabited

/-- One `deviate` statement: its argument and the substatements the claim covers (`none` = not given).
`max = some none` is `max-elements unbounded`. -/
structure DeviateStmt where
  kind : DevKind
  config : Option Bool := none
  mandatory : Option Bool := none
  default : List String := []
  min : Option Nat := none
  max : Option (Option Nat) := none
  units : Option String := none
  type : Option String := none
  deriving Repr, DecidableEq, Inhabited

inductive PropName | config | default | mandatory | min | max | units | type
  deriving Repr, DecidableEq, Inhabited

/-- Why a deviate statement cannot be applied. -/
inductive DevErr
  | addExists (p : PropName)        -- add: the property is already there
  | manyDefaults                     -- add: several defaults for a node that takes one
  | replaceAbsent (p : PropName)    -- replace: nothing to replace
  | deleteAbsent (p : PropName)     -- delete: nothing to delete
  | deleteMismatch (p : PropName)   -- delete: the value in the node is a different one
  | boundOnNonList (p : PropName)   -- element bound for a node that is neither list nor leaf-list
  | unknownKind                      -- the argument of `deviate` is not one of the four
  | afterRemoval                     -- another deviate statement after not-supported removed the node
  deriving Repr, DecidableEq, Inhabited

/-- The error conditions property C08 says must be reported (the others make the deviation invalid
by the RFC, but the claim does not promise a report for them).  "Missing target" and "unresolvable
replacement type" are conditions of the surrounding layers (path lookup, type resolution), not of
one statement on one node. -/
def DevErr.claimed : DevErr → Bool
  | .addExists .default => true
  | .deleteAbsent .default | .deleteAbsent .min | .deleteAbsent .max => true
  | .deleteMismatch .default | .deleteMismatch .min | .deleteMismatch .max => true
  | .boundOnNonList _ => true
  | .unknownKind => true
  | _ => false

def DevErr.name : DevErr → String
  | .addExists _ => "add-exists" | .manyDefaults => "many-defaults" | .replaceAbsent _ => "replace-absent"
  | .deleteAbsent _ => "delete-absent" | .deleteMismatch _ => "delete-mismatch"
  | .boundOnNonList _ => "bound-on-non-list" | .unknownKind => "unknown-kind" | .afterRemoval => "after-removal"

/-! ### preconditions -/

/-- `add` of a property that can appear once. -/
def vAdd {α} (p : PropName) (present : Bool) (arg : Option α) : List DevErr :=
  if arg.isSome && present then [.addExists p] else []

/-- `replace`: the property must be there. -/
def vReplace {α} (p : PropName) (present : Bool) (arg : Option α) : List DevErr :=
  if arg.isSome && !present then [.replaceAbsent p] else []

/-- `delete`: the property must be there with the given value. -/
def vDelete {α} [DecidableEq α] (p : PropName) (cur : Option α) (arg : Option α) : List DevErr :=
  match arg, cur with
  | none, _ => []
  | some _, none => [.deleteAbsent p]
  | some a, some c => if a = c then [] else [.deleteMismatch p]

/-- An element bound is only meaningful on a list or leaf-list (every kind of deviate). -/
def vBound {α} (p : PropName) (listLike : Bool) (arg : Option α) : List DevErr :=
  if arg.isSome && !listLike then [.boundOnNonList p] else []

/-- Every condition of §7.20.3.2 that statement `s` breaks on a node with properties `p`. -/
def violations (p : NodeProps) (s : DeviateStmt) : List DevErr :=
  match s.kind with
  | .other => [.unknownKind]
  | .notSupported => []
  | .add =>
    vAdd .config p.config.isSome s.config ++
    (if s.default.isEmpty || p.leafList then []
     else (if s.default.length > 1 then [.manyDefaults] else []) ++
          (if !p.default.isEmpty then [.addExists .default] else [])) ++
    vAdd .mandatory p.mandatory.isSome s.mandatory ++
    vBound .min p.listLike s.min ++ (if p.listLike then vAdd .min (p.min != 0) s.min else []) ++
    vBound .max p.listLike s.max ++ (if p.listLike then vAdd .max p.max.isSome s.max else []) ++
    vAdd .units p.units.isSome s.units ++
    vAdd .type p.type.isSome s.type
  | .replace =>
    vReplace .config p.config.isSome s.config ++
    (if !s.default.isEmpty && p.default.isEmpty then [.replaceAbsent .default] else []) ++
    vReplace .mandatory p.mandatory.isSome s.mandatory ++
    vBound .min p.listLike s.min ++ (if p.listLike then vReplace .min (p.min != 0) s.min else []) ++
    vBound .max p.listLike s.max ++ (if p.listLike then vReplace .max p.max.isSome s.max else []) ++
    vReplace .units p.units.isSome s.units ++
    vReplace .type p.type.isSome s.type
  | .delete =>
    vDelete .config p.config s.config ++
    (if p.leafList then
       -- every named value must be one of the node's defaults
       (if s.default.all (p.default.contains ·) then []
        else [if p.default.isEmpty then .deleteAbsent .default else .deleteMismatch .default])
     else
       -- a node other than a leaf-list has (at most) one default, its first
       vDelete .default p.default.head? s.default.head?) ++
    vDelete .mandatory p.mandatory s.mandatory ++
    vBound .min p.listLike s.min ++ (if p.listLike then vDelete .min (some p.min) s.min else []) ++
    vBound .max p.listLike s.max ++ (if p.listLike then vDelete .max (some p.max) s.max else [])

/-! ### effect -/

/-- The node's properties after statement `s`; `none` = the node is gone.  `ignoreNotSupported` is the
library option under which a not-supported target is retained. -/
def effect (ignoreNotSupported : Bool) (p : NodeProps) (s : DeviateStmt) : Option NodeProps :=
  match s.kind with
  | .other => some p
  | .notSupported => if ignoreNotSupported then some p else none
  | .add | .replace =>
    some { p with
      config := s.config.or p.config
      default :=
        if s.default.isEmpty then p.default
        else if s.kind = .add && p.leafList then p.default ++ s.default
        else s.default
      mandatory := s.mandatory.or p.mandatory
      min := s.min.getD p.min
      max := s.max.getD p.max
      units := s.units.or p.units
      type := s.type.or p.type }
  | .delete =>
    some { p with
      config := if s.config.isSome then none else p.config
      default :=
        if s.default.isEmpty then p.default
        else if p.leafList then p.default.filter (!s.default.contains ·)
        else []
      mandatory := if s.mandatory.isSome then none else p.mandatory
      min := if s.min.isSome then 0 else p.min
      max := if s.max.isSome then none else p.max }

/-- RFC 7950 §7.20.3.2 for one deviate statement on one node: the first broken condition, or the
node's properties afterwards (`none`: the node is removed). -/
def deviate (ignoreNotSupported : Bool) (p : NodeProps) (s : DeviateStmt) : Except DevErr (Option NodeProps) :=
  match violations p s with
  | [] => .ok (effect ignoreNotSupported p s)
  | e :: _ => .error e

/-- The one place where the library is stricter than the RFC and says so in its own message:
`deviate delete` of a default of a leaf-list is refused as unsupported even when the value is there. -/
def leafListDeleteUnsupported (p : NodeProps) (s : DeviateStmt) : Bool :=
  s.kind = .delete && p.leafList && !s.default.isEmpty

/-! ### several statements on one target, in written order -/

/-- State of a target while the deviate statements that name it are applied one after the other. -/
structure SeqState where
  /-- `none`: removed by not-supported -/
  node : Option NodeProps
  /-- broken conditions so far, in order -/
  errs : List DevErr := []
  /-- some statement was a leaf-list default deletion (refused by the library as unsupported) -/
  unsupported : Bool := false
  deriving Repr, DecidableEq, Inhabited

/-- One more statement.  Once the node is gone nothing can be applied to it (§7.20.3: not-supported
stands alone in a deviation). -/
def seqStep (ignoreNotSupported : Bool) (st : SeqState) (s : DeviateStmt) : SeqState :=
  match st.node with
  | none => { st with errs := st.errs ++ [if s.kind = .other then .unknownKind else .afterRemoval] }
  | some p =>
    { node := effect ignoreNotSupported p s, errs := st.errs ++ violations p s,
      unsupported := st.unsupported || leafListDeleteUnsupported p s }

/-- The statements in written order: a left fold. -/
def deviateSeq (ignoreNotSupported : Bool) (p : NodeProps) (ss : List DeviateStmt) : SeqState :=
  ss.foldl (seqStep ignoreNotSupported) { node := some p }

end Goyang.Spec.Deviate
