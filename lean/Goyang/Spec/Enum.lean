/-
Specification for C14: RFC 7950 §9.6.4.2 (enum `value`) and §9.7.4.2 (bit `position`), as the property
states them.  Declarative: first the value of every member is determined from the members written
before it, then the whole table is judged.

  * a member with an explicit value/position gets it;
  * a member without one gets 0 if it is the first member, otherwise one more than the highest value
    assigned (explicitly or implicitly) to any earlier member;
  * names are pairwise distinct; enum values are pairwise distinct; every value lies in the int32 range
    (enumeration) / every position in the uint32 range (bits) — in particular an automatic assignment
    beyond the maximum makes the type invalid.

(RFC 7950 §9.7.4.2 also wants bit positions unique; the property does not claim it and goyang's
bit fields deliberately allow two names for one position, so `Kind.uniqueValues .bits = false`.)
Values are unbounded integers here.  Core Lean only.
-/
namespace Goyang.Spec.Enum

abbrev Name := List UInt8

inductive Kind | enumeration | bits
deriving Repr, DecidableEq

def Kind.min : Kind → Int
  | .enumeration => -2147483648
  | .bits => 0

def Kind.max : Kind → Int
  | .enumeration => 2147483647
  | .bits => 4294967295

def Kind.uniqueValues : Kind → Bool
  | .enumeration => true
  | .bits => false

/-- the automatic value after the given earlier values -/
def nextValue (earlier : List Int) : Int :=
  match earlier with
  | [] => 0
  | v :: vs => 1 + vs.foldl (fun a b => if a ≤ b then b else a) v

/-- values of the members, in order, given the values of the members before them -/
def valuesFrom (earlier : List Int) : List (Option Int) → List Int
  | [] => []
  | some v :: rest => v :: valuesFrom (earlier ++ [v]) rest
  | none :: rest => nextValue earlier :: valuesFrom (earlier ++ [nextValue earlier]) rest

/-- the name/value table the members denote -/
def table (ms : List (Name × Option Int)) : List (Name × Int) :=
  (ms.map (·.1)).zip (valuesFrom [] (ms.map (·.2)))

/-- the table is a legal enumeration / bits type -/
def Valid (k : Kind) (t : List (Name × Int)) : Prop :=
  (t.map (·.1)).Nodup ∧ (k.uniqueValues = true → (t.map (·.2)).Nodup) ∧ ∀ p ∈ t, k.min ≤ p.2 ∧ p.2 ≤ k.max

instance (k : Kind) (t : List (Name × Int)) : Decidable (Valid k t) := by unfold Valid; exact inferInstance

/-- RFC 7950 assignment: the table, or `none` when the type is invalid -/
def assign (k : Kind) (ms : List (Name × Option Int)) : Option (List (Name × Int)) :=
  if Valid k (table ms) then some (table ms) else none

end Goyang.Spec.Enum
