/-
What property C05 says about a returned error list, read independently of how `errorSort`
computes: "Error lists come back ordered by file, line and column with duplicates removed."

A message *has a position* when it starts with `file:line:col:` where `line` and `col` are plain
decimal numbers that fit a Go `int` (that is what `Source(node)` prints).  Among the messages that
have a position, an earlier one never has a greater (file, line, col) triple than a later one:
files by Go's string order, line and column as numbers.  No message occurs twice.  Messages
without a position (e.g. "cannot find target node to deviate, …") are only subject to the second
clause here; that their order too is a function of the *set* of messages is
`Props.C05.errorSort_perm_invariant`.

The order on byte strings is core Lean's lexicographic `<` on `List UInt8`, not the model's own
comparison function.  Core Lean only; executable (`sortedB`).
-/
namespace Goyang.Spec.ErrorSort

abbrev Msg := List UInt8

structure Pos where
  file : Msg
  line : Nat
  col : Nat
  deriving Repr, DecidableEq

/-- Text up to the next colon and the text behind it; `none` when there is no colon. -/
def upToColon (m : Msg) : Option (Msg × Msg) :=
  match m.dropWhile (· != 58) with
  | _ :: rest => some (m.takeWhile (· != 58), rest)
  | [] => none

/-- A plain decimal number below 2^63. -/
def natOf? (s : Msg) : Option Nat :=
  if s ≠ [] ∧ s.all (fun b => 48 ≤ b && b ≤ 57) then
    let v := s.foldl (fun a d => 10 * a + (d.toNat - 48)) 0
    if v < 2 ^ 63 then some v else none
  else none

/-- The position a message starts with, if it starts with one. -/
def pos? (m : Msg) : Option Pos :=
  match upToColon m with
  | none => none
  | some (f, r1) =>
    match upToColon r1 with
    | none => none
    | some (l, r2) =>
      match upToColon r2 with
      | none => none
      | some (c, _) =>
        match natOf? l, natOf? c with
        | some l, some c => some { file := f, line := l, col := c }
        | _, _ => none

/-- (file, line, col) of `a` is not after that of `b`. -/
def Pos.le (a b : Pos) : Prop :=
  a.file < b.file ∨ (a.file = b.file ∧ (a.line < b.line ∨ (a.line = b.line ∧ a.col ≤ b.col)))

instance (a b : Pos) : Decidable (a.le b) := by unfold Pos.le; exact inferInstance

/-- `a` may stand before `b`. -/
def InOrder (a b : Msg) : Prop :=
  match pos? a, pos? b with
  | some pa, some pb => pa.le pb
  | _, _ => True

instance (a b : Msg) : Decidable (InOrder a b) := by
  unfold InOrder; split <;> exact inferInstance

/-- Ordered by file, then line and column numerically; no duplicates. -/
def Sorted (l : List Msg) : Prop := l.Pairwise InOrder ∧ l.Nodup

/-- Executable form of `Sorted` (`sortedB_iff`). -/
def sortedB : List Msg → Bool
  | [] => true
  | a :: t => t.all (fun b => decide (InOrder a b) && a != b) && sortedB t

end Goyang.Spec.ErrorSort
