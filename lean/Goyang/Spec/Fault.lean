/-
Single lexical or syntactic faults of a text (C16, second sentence), said over the reference
reader of `Goyang/Spec/Parse.lean` and nothing else: where, following the statement grammar of
RFC 7950 6.3 over the reference reader's tokens, the reading cannot go on, and why.

* `Stuck text ctx toks w`: reading `*statement` at top level (`ctx = top`), inside a block
  (`ctx = block`) or one statement (`ctx = stmt`) from the tokens `toks`, everything read before
  `w` is well formed as judged by the reference reader (`stmt`, `argument`), and at `w` it is not:
  an unexpected `}` between two top-level statements, a quoted string where a keyword must stand,
  a token that is neither `;` nor `{` behind the argument, an undefined backslash pair in a
  double-quoted piece of an argument (outside a `pattern` statement) — or the tokens run out
  (`endOfTokens`), which is what happens in front of an unterminated quote or comment.
* `SingleFault t k off`: the text `t` has a fault of kind `k` at character offset `off`, and
  nothing is wrong before it.
* "Nothing is wrong" includes what the one-token look-ahead of string concatenation
  (`"a" + "b"`, RFC 7950 6.1.3.1) reads behind a quoted token (`lookahead`): an undefined backslash
  pair there would be a second fault.

The tokenizer is used one token at a time (`specNext` of `Goyang/Lemmas/Scan.lean`, which is
`tokensAux` of the reference reader unfolded once: `tokensAux_succ`), so that the tokens in front of
an unterminated quote or comment can be named (`scanStop`).
-/
import Goyang.Spec.Parse
import Goyang.Lemmas.Scan

namespace Goyang.Spec.Fault
open Goyang.Spec.Parse
open Goyang.Lemmas.Scan (specNext)

inductive FaultKind
  | unexpectedRBrace        -- `}` between two top-level statements
  | missingSemi             -- a token that is neither `;` nor `{` where one of them must stand
  | quotedKeyword           -- a quoted string where a keyword must stand
  | badEscape               -- a backslash pair RFC 7950 6.1.3 does not define
  | unterminatedSQuote
  | unterminatedDQuote
  | unterminatedComment
  deriving DecidableEq, Repr

/-- a backslash pair RFC 7950 6.1.3 does not define -/
def undefinedPair : QItem → Bool
  | .esc c => !(c = 'n' || c = 't' || c = '"' || c = '\\')
  | .lit _ => false

/-- a double-quoted token with an undefined backslash pair -/
def hasUndefined (t : PTok) : Bool :=
  match t.tok with
  | .dq raw => raw.any undefinedPair
  | _ => false

/-- characters of the raw text in front of its first undefined pair -/
def undefinedAt : List QItem → Nat
  | [] => 0
  | .lit _ :: r => 1 + undefinedAt r
  | .esc c :: r => if undefinedPair (.esc c) then 0 else 2 + undefinedAt r

/-- what must be read behind a quoted token to know where the concatenation `*( "+" quoted )`
ends: the `+` and quoted pieces, and the one or two tokens that show it has ended -/
def lookahead : List PTok → List PTok
  | p :: q :: rest =>
    if p.tok = .unq ['+'] then (if q.tok.isQuoted then p :: q :: lookahead rest else [p, q]) else [p]
  | ts => ts

/-- where the reading stops -/
inductive Where
  | fault (k : FaultKind) (off : Nat)
  | endOfTokens
  deriving DecidableEq, Repr

/-- what is being read -/
inductive Ctx
  | top        -- `*statement` up to the end of the text
  | block      -- `*statement` up to the closing `}`
  | stmt       -- one statement
  deriving DecidableEq, Repr

/-- behind a quoted piece the tokens run out inside `*( "+" quoted )`; `b`: in a `pattern` statement -/
inductive TailRunsOut (b : Bool) : List PTok → Prop
  | nil : TailRunsOut b []
  | plus (p : PTok) : p.tok = .unq ['+'] → TailRunsOut b [p]
  | more (p q : PTok) (ts : List PTok) : p.tok = .unq ['+'] → q.tok.isQuoted = true →
      (b = false → hasUndefined q = false) → TailRunsOut b ts → TailRunsOut b (p :: q :: ts)

/-- behind a keyword the tokens run out before the `;` or `{` -/
inductive RunsOut (b : Bool) : List PTok → Prop
  | nil : RunsOut b []
  | unq (a : PTok) (s : List Char) : a.tok = .unq s → RunsOut b [a]
  | quoted (q : PTok) (ts : List PTok) : q.tok.isQuoted = true → (b = false → hasUndefined q = false) →
      TailRunsOut b ts → RunsOut b (q :: ts)

/-- the tokens begin with quoted pieces joined by `+`, and `x` is the first piece with an undefined pair -/
inductive ArgPieces : List PTok → PTok → Prop
  | here (x : PTok) (post : List PTok) : hasUndefined x = true → ArgPieces (x :: post) x
  | more (q p : PTok) (ts : List PTok) (x : PTok) : q.tok.isQuoted = true → hasUndefined q = false →
      p.tok = .unq ['+'] → ArgPieces ts x → ArgPieces (q :: p :: ts) x

/-- reading `ctx` from `toks` goes well up to `w` (see the head of the file) -/
inductive Stuck (text : List Char) : Ctx → List PTok → Where → Prop
  /-- a `}` where a top-level statement must begin -/
  | rbrace (t : PTok) (ts : List PTok) : t.tok = .rbrace →
      Stuck text .top (t :: ts) (.fault .unexpectedRBrace t.off)
  /-- the first statement is the one that is stuck -/
  | first (c : Ctx) (t : PTok) (ts : List PTok) (w : Where) : c ≠ .stmt → t.tok ≠ .rbrace →
      Stuck text .stmt (t :: ts) w → Stuck text c (t :: ts) w
  /-- the first statement is well formed (the reference reader reads it), a later one is stuck -/
  | later (c : Ctx) (t : PTok) (ts : List PTok) (s : Stmt) (rest : List PTok) (w : Where) : c ≠ .stmt →
      t.tok ≠ .rbrace → stmt text (ts.length + 1) (t :: ts) = some (s, rest) → Stuck text c rest w →
      Stuck text c (t :: ts) w
  /-- no token is left -/
  | ended (c : Ctx) : c ≠ .stmt → Stuck text c [] .endOfTokens
  /-- a quoted string where the keyword must stand -/
  | keyword (t : PTok) (ts : List PTok) : t.tok.isQuoted = true →
      (∀ x ∈ t :: lookahead ts, hasUndefined x = false) →
      Stuck text .stmt (t :: ts) (.fault .quotedKeyword t.off)
  /-- an undefined backslash pair in the argument of a statement other than `pattern` -/
  | escape (k : PTok) (kw : List Char) (ts : List PTok) (x : PTok) (raw : List QItem) : k.tok = .unq kw →
      kw ≠ patternKw → ArgPieces ts x → x.tok = .dq raw →
      Stuck text .stmt (k :: ts) (.fault .badEscape (x.off + 1 + undefinedAt raw))
  /-- behind keyword and argument stands a token `e` that is neither `;` nor `{` -/
  | noTerm (k : PTok) (kw : List Char) (ts : List PTok) (arg : Option (List Char)) (e : PTok) (rest : List PTok) :
      k.tok = .unq kw → argument text (kw = patternKw) ts = some (arg, e :: rest) →
      e.tok ≠ .semi → e.tok ≠ .lbrace →
      (e.tok.isQuoted = true → ∀ x ∈ e :: lookahead rest, hasUndefined x = false) →
      Stuck text .stmt (k :: ts) (.fault .missingSemi e.off)
  /-- the tokens run out behind the keyword -/
  | argEnds (k : PTok) (kw : List Char) (ts : List PTok) : k.tok = .unq kw →
      RunsOut (kw = patternKw) ts → Stuck text .stmt (k :: ts) .endOfTokens
  /-- keyword, argument and `{` are there; the reading is stuck inside the block -/
  | block (k : PTok) (kw : List Char) (ts : List PTok) (arg : Option (List Char)) (e : PTok) (rest : List PTok)
      (w : Where) : k.tok = .unq kw → argument text (kw = patternKw) ts = some (arg, e :: rest) →
      e.tok = .lbrace → Stuck text .block rest w → Stuck text .stmt (k :: ts) w

/-- the tokens read before the tokenizer stops, and the rest of the text at which it stops
(`none`: it reaches the end of the text).  `cs` is the tail of a text of `n` characters; fuel `cs.length + 1`. -/
def scanStop (n : Nat) : Nat → List Char → List PTok × Option (List Char)
  | 0, cs => ([], some cs)
  | f + 1, cs =>
    match specNext n cs with
    | none => ([], some cs)
    | some none => ([], none)
    | some (some (t, r)) => (t :: (scanStop n f r).1, (scanStop n f r).2)

/-- behind white space and comments, `suf` (the tail of a text of `n` characters) begins with a
quote or comment of kind `k` that is never closed; `off` is the offset of its first character.  An
unterminated double-quoted string must not also contain an undefined backslash pair. -/
def OpenerAt (n : Nat) (suf : List Char) (k : FaultKind) (off : Nat) : Prop :=
  match k with
  | .unterminatedComment => skipGround suf = none ∧ ∃ c, openerGround suf = some c ∧ off = n - c
  | .unterminatedSQuote => ∃ r, skipGround suf = some ('\'' :: r) ∧ scanSq r = none ∧ off = n - (r.length + 1)
  | .unterminatedDQuote =>
    ∃ r, skipGround suf = some ('"' :: r) ∧ scanDq r = none ∧ off = n - (r.length + 1) ∧ escMarks (off + 1) r = []
  | _ => False

/-- none of the tokens the tokenizer reads before it stops is one of the constructs property C02
excludes.  For a text whose quotes and comments are all closed this is `Admissible`; for a text with
an unterminated quote or comment (which `Admissible` accepts whatever else it contains) it speaks
about the tokens in front of the opener. -/
def AdmissibleScan (t : List Char) : Bool :=
  (scanStop t.length (t.length + 1) t).1.all (fun x => !tokExcluded t x)

/-- the text `t` has a fault of kind `k` at offset `off` and nothing is wrong before it -/
def SingleFault (t : List Char) (k : FaultKind) (off : Nat) : Prop :=
  match k with
  | .unterminatedSQuote | .unterminatedDQuote | .unterminatedComment =>
    ∃ toks suf, scanStop t.length (t.length + 1) t = (toks, some suf) ∧ Stuck t .top toks .endOfTokens ∧
      OpenerAt t.length suf k off
  | _ => ∃ toks, tokenize t = some toks ∧ Stuck t .top toks (.fault k off)

end Goyang.Spec.Fault
