import Goyang.Model.File
import Goyang.Spec.Date
/-
C13 (b), independent reading of the file chooser.

For a module name `m`, a *candidate* in a directory is a regular file named `m.yang` or
`m@YYYY-MM-DD.yang` (4, 2, 2 decimal digits — nothing else may stand between the module name and
`.yang`).  The best candidate of a directory is `m.yang` if it is there, else the dated one with
the greatest date, dates compared as (year, month, day) numbers.  The search considers
directories one after the other and takes the best candidate of the first directory that has
one: first the current directory, then what each search path entry stands for, in path order.
An entry `d` stands for `d`; an entry `d/...` stands for `d` and everything below it, in the
order `under` (each directory after its subdirectories, those in name order; a directory that
itself has `m.yang` comes before the subdirectories listed after that file).

Only the tree type, `lookup`, the listing order (`FsNode.norm`, the modelled `ReadDir`) and the
parsed form of path entries are shared with the model; candidates, dates and the choice are
defined afresh.  Core Lean only.
-/
namespace Goyang.Spec.File
open Goyang.Model.File (Name FsNode Path Entry lookup)
open Goyang.Spec (Date parseDate)

abbrev Listing := List (Name × FsNode)

/-- The date of `fn` when `fn` is `m@YYYY-MM-DD.yang`: `m`, then `@`, then the ten characters
of a date, then `.yang` and nothing more. -/
def datedOf (m fn : Name) : Option Date :=
  if fn.take m.length = m then
    let rest := fn.drop m.length
    if rest.head? = some '@' ∧ rest.drop 11 = ".yang".toList then parseDate ((rest.drop 1).take 10) else none
  else none

/-- The names of the regular files of a listing. -/
def files (es : Listing) : List Name := (es.filter fun e => !e.2.isDir).map (·.1)

/-- `m.yang` when it is among the files. -/
def exact? (m : Name) (es : Listing) : Option Name :=
  if (files es).contains (m ++ ".yang".toList) then some (m ++ ".yang".toList) else none

/-- The dated candidates with their dates. -/
def dated (m : Name) (es : Listing) : List (Name × Date) :=
  (files es).filterMap fun fn => (datedOf m fn).map fun d => (fn, d)

/-- The dated candidate no other is later than. -/
def latestDated (m : Name) (es : Listing) : Option Name :=
  ((dated m es).find? fun c => (dated m es).all fun c' => c'.2.le c.2).map (·.1)

/-- The best candidate of one directory. -/
def bestIn (m : Name) (es : Listing) : Option Name :=
  match exact? m es with
  | some fn => some fn
  | none => latestDated m es

/-- `fn` is a candidate file name for module `m`. -/
def IsCandidateName (m fn : Name) : Prop := fn = m ++ ".yang".toList ∨ (datedOf m fn).isSome

instance (m fn : Name) : Decidable (IsCandidateName m fn) := by unfold IsCandidateName; infer_instance

mutual
/-- The directories at and below `node` (at path `p`, listings in name order), in the order in
which a recursive entry considers them. -/
def under (m : Name) (p : Path) : FsNode → List (Path × Listing)
  | .file => []
  | .dir es => underList m p es ++ [(p, es)]
/-- The subdirectories listed before the directory's own `m.yang` (all of them when there is
none), each with what is below it. -/
def underList (m : Name) (p : Path) : Listing → List (Path × Listing)
  | [] => []
  | (n, x) :: rest =>
    if !x.isDir && n == m ++ ".yang".toList then []
    else under m (p ++ [n]) x ++ underList m p rest
end

/-- The directories one search path entry stands for. -/
def entryDirs (root : FsNode) (m : Name) (e : Entry) : List (Path × Listing) :=
  match lookup root e.dir with
  | some (.dir es) => if e.recurse then under m e.dir (.dir es) else [(e.dir, es)]
  | _ => []

/-- All directories searched for module `m`, in order: the current directory, then the path. -/
def searchDirs (root : FsNode) (path : List Entry) (m : Name) : List (Path × Listing) :=
  entryDirs root m ⟨[], false⟩ ++ path.flatMap (entryDirs root m)

/-- The chosen file: the best candidate of the first directory that has one. -/
def choose (root : FsNode) (path : List Entry) (m : Name) : Option Path :=
  (searchDirs root path m).findSome? fun (p, es) => (bestIn m es).map fun fn => p ++ [fn]

end Goyang.Spec.File
