import Goyang.Model.Find
/-
Specification side of property C17 (schema path lookup finds exactly the node the path names).

What a schema path *is*, independently of how `Entry.Find` walks it:

* a node of a processed forest is addressed by a location `(tree, steps)` (`Model.Loc`); the
  steps are child names and the two rpc/action slots `input` / `output`;
* its **absolute prefixed schema path** is `/pfx:step/pfx:step/…`, where `pfx` is a prefix that,
  in the module the start node was written in (its *context module*), denotes the module that
  owns the tree (`Denotes`): the context module's own prefix (the `belongs-to` prefix for a
  submodule) or the prefix of one of its imports.  RFC 7950 lets every step carry its own
  prefix; goyang reads the prefix of the first step only, so every spelling that agrees on the
  first step and spells the later steps with any prefix or none (`Spells`) names the same node;
* the **relative path** from `a` to `b` (same tree) is one `..` per step from `a` up to the
  deepest common ancestor followed by the names down to `b`, or `.` when `a = b`;
* `wfKeys` is what a tree must satisfy for paths to be a faithful naming scheme at all: names a
  path can spell (`goodName`), siblings with different names, an rpc/action has no children
  besides `input` / `output`, and only an rpc/action has those.

Everything here is executable (the driver's `spec.paths` op evaluates it on processed forests).
-/
namespace Goyang.Spec.Find
open Goyang.Model

/-! ### spelling of steps -/

/-- The name a step is written with. -/
def stepName : Step → String
  | .child k => k
  | .input => "input"
  | .output => "output"

/-- A step as written: bare, or `prefix:name`. -/
def spell (pfx : Option String) (name : String) : String :=
  match pfx with
  | none => name
  | some p => p ++ ":" ++ name

/-- A prefix as it can be written in a path: non-empty, no `:` and no `/`. -/
def GoodPrefix (p : String) : Prop := p ≠ "" ∧ ':' ∉ p.toList ∧ '/' ∉ p.toList

/-- `part` is a way of writing step `s`: bare, or with any well-formed prefix. -/
inductive SpellsStep : String → Step → Prop
  | bare (s : Step) : SpellsStep (stepName s) s
  | pfx (p : String) (s : Step) : GoodPrefix p → SpellsStep (p ++ ":" ++ stepName s) s

/-- `parts` spells the steps `q` one by one. -/
inductive Spells : List String → Path → Prop
  | nil : Spells [] []
  | cons {part : String} {s : Step} {parts : List String} {q : Path} :
      SpellsStep part s → Spells parts q → Spells (part :: parts) (s :: q)

/-- The parts of the canonical spelling: every step carries `pfx`. -/
def prefixedParts (pfx : String) (p : Path) : List String := p.map fun s => spell (some pfx) (stepName s)

/-- The parts of the bare spelling. -/
def bareParts (p : Path) : List String := p.map stepName

/-- Render an absolute path: a `/` before every part. -/
def renderAbs (parts : List String) : String := "/".intercalate ("" :: parts)

/-- Render a relative path: `/` between the parts. -/
def renderRel (parts : List String) : String := "/".intercalate parts

/-- The absolute prefixed schema path of the node at steps `p`: `/pfx:s₁/pfx:s₂/…`. -/
def absPath (pfx : String) (p : Path) : String := renderAbs (prefixedParts pfx p)

/-! ### what a prefix denotes -/

/-- In the module with id `ctx`, the prefix `pfx` denotes the module whose tree is `t`: the
context module itself (own prefix; for a submodule the prefix of its `belongs-to`) or the module
one of its imports binds to that prefix; a submodule stands for the module it belongs to. -/
def Denotes (reg : Registry) (ctx : Nat) (pfx : String) (t : Nat) : Prop :=
  ∃ cm m o, reg.byId ctx = some cm ∧ reg.findModuleByPrefix cm pfx = some m ∧ reg.owner m = some o ∧ o.seq = t

/-- Executable form of `Denotes` (the tree a prefix selects, if any). -/
def prefixTree (reg : Registry) (ctx : Nat) (pfx : String) : Option Nat :=
  (reg.byId ctx).bind fun cm => (reg.findModuleByPrefix cm pfx).bind fun m => (reg.owner m).map (·.seq)

/-- The tree a name without prefix belongs to, seen from a node of tree `id`: that tree — unless
it is the private tree of a submodule, whose nodes live in the tree of the module it belongs to
(when that module is loaded). -/
def homeTree (reg : Registry) (id : Nat) : Nat :=
  match reg.byId id with
  | some sm => if sm.isSub then ((reg.owner sm).map (·.seq)).getD id else id
  | none => id

/-- The ways of writing the absolute path of the node at steps `q` of tree `t`, for a lookup
started at `start` whose context module is `ctx`: the first step is either bare — then the
lookup stays in the start node's own module (`homeTree`) — or carries a prefix that denotes `t`'s
module in `ctx`; the later steps are spelled freely. -/
inductive AbsSpelling (reg : Registry) (start : Loc) (ctx : Nat) (t : Nat) : List String → Path → Prop
  | own (s : Step) (rest : List String) (q : Path) :
      t = homeTree reg start.1 → Spells rest q → AbsSpelling reg start ctx t (stepName s :: rest) (s :: q)
  | pfx (p : String) (s : Step) (rest : List String) (q : Path) :
      GoodPrefix p → Denotes reg ctx p t → Spells rest q →
      AbsSpelling reg start ctx t ((p ++ ":" ++ stepName s) :: rest) (s :: q)

/-! ### relative paths -/

/-- Length of the longest common prefix. -/
def commonLen : Path → Path → Nat
  | a :: as, b :: bs => if a = b then commonLen as bs + 1 else 0
  | _, _ => 0

/-- Parts of the relative path from `a` to `b`: up to the deepest common ancestor, then down. -/
def relParts (a b : Path) : List String :=
  let n := commonLen a b
  let parts := List.replicate (a.length - n) ".." ++ bareParts (b.drop n)
  if parts.isEmpty then ["."] else parts

/-- The relative path from the node at `a` to the node at `b` of the same tree. -/
def relPath (a b : Path) : String := renderRel (relParts a b)

/-! ### locations and nodes -/

/-- The node at a location. -/
def nodeAt (f : Forest) (loc : Loc) : Option Entry := (f.tree? loc.1).bind (·.getAt loc.2)

mutual
/-- Every node below (and including) `e`, with the steps that lead to it: children in `Dir`
order, then the rpc input, then the output. -/
def nodes : Entry → List (Path × Entry)
  | .mk d c i o => ([], .mk d c i o) :: (nodesDir c ++ nodesSlot .input i ++ nodesSlot .output o)
def nodesDir : List Entry → List (Path × Entry)
  | [] => []
  | k :: ks => ((nodes k).map fun px => (Step.child k.name :: px.1, px.2)) ++ nodesDir ks
/-- An rpc slot holds at most one entry: only the first is a node of the tree. -/
def nodesSlot (s : Step) : List Entry → List (Path × Entry)
  | [] => []
  | k :: _ => (nodes k).map fun px => (s :: px.1, px.2)
end

/-! ### well-formedness -/

/-- A child name a path can spell. -/
def goodName (k : String) : Bool :=
  k != "" && k != "." && k != ".." && !k.toList.contains '/' && !k.toList.contains ':'

def distinct : List String → Bool
  | [] => true
  | x :: xs => !xs.contains x && distinct xs

mutual
/-- Paths name the nodes of this tree faithfully. -/
def wfKeys : Entry → Bool
  | .mk d c i o =>
    distinct (c.map (·.name)) && c.all (fun k => goodName k.name) &&
    (if d.isRpc then c.isEmpty else i.isEmpty && o.isEmpty) &&
    wfKeysL c && wfKeysL i && wfKeysL o
def wfKeysL : List Entry → Bool
  | [] => true
  | e :: es => wfKeys e && wfKeysL es
end

/-- Every tree is well formed and tree ids are not repeated. -/
def wfForest (f : Forest) : Bool :=
  (f.trees.map (·.1)).Nodup && f.trees.all fun it => wfKeys it.2

/-- `wfForest` as a proposition. -/
def WFForest (f : Forest) : Prop := (f.trees.map (·.1)).Nodup ∧ ∀ it ∈ f.trees, wfKeys it.2 = true

/-! ### steps that name nothing -/

/-- The written step `part` names no child of `e` (and is not one of the navigation steps `.` and
`..`): below an rpc/action only `input` and `output` exist; elsewhere the bare name must be a key
of `Dir`. -/
def NamesNoChild (e : Entry) (part : String) : Prop :=
  part ≠ "." ∧ part ≠ ".." ∧
  (if e.d.isRpc then stripPrefix part ≠ "input" ∧ stripPrefix part ≠ "output"
   else stripPrefix part ≠ "." ∧ e.child? (stripPrefix part) = none)

/-! ### the changes a lookup may make -/

/-- The forest after a lookup whose first prefix could not be resolved: goyang records an error
("cannot find module giving prefix …") on the root entry of the tree the lookup started in. -/
def withPrefixError (f : Forest) (id : Nat) : Forest :=
  match f.tree? id with
  | some root => f.setTree id (root.addErr (Err.bare "other"))
  | none => f


/-- Give the rpc/action `e` the input (output) it did not spell out. -/
def addImplicit (isInput : Bool) (e : Entry) : Entry :=
  match e with
  | .mk d c i o => if isInput then .mk d c [implicitIO e true] o else .mk d c i [implicitIO e false]

/-- One absent rpc/action input or output is created, nothing else changes. -/
inductive GrowStep : Entry → Entry → Prop
  | input (root : Entry) (p : Path) (e : Entry) :
      root.getAt p = some e → e.d.isRpc = true → e.inp = [] → GrowStep root (root.updateAt p (addImplicit true))
  | output (root : Entry) (p : Path) (e : Entry) :
      root.getAt p = some e → e.d.isRpc = true → e.out = [] → GrowStep root (root.updateAt p (addImplicit false))

/-- Zero or more such creations. -/
inductive Grown : Entry → Entry → Prop
  | refl (e : Entry) : Grown e e
  | step {a b c : Entry} : GrowStep a b → Grown b c → Grown a c

end Goyang.Spec.Find
