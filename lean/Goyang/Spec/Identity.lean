import Goyang.Model.Ctx
import Goyang.Model.Err
/-
C11 — what the derived-identity lists have to be, read off the schema (RFC 7950 §7.18, §9.10):

* The schema consists of every loaded module and of every submodule a part of the schema includes.
* Every `identity` statement of a part of the schema is a vertex `(module, name)`; an identity
  written in a submodule belongs to the module the submodule belongs to.
* A `base` statement `p:n` written in a (sub)module names the vertex `(M, n)` where `M` is the
  module itself (no prefix, or its own prefix) or the module its import with prefix `p` denotes.
  Each base statement that names a vertex is an edge `derived → base`.
* `j` is derived from `i` when a non-empty chain of edges leads from `j` to `i`.
* The list reported for `i` holds exactly the identities derived from `i`, strictly ascending by
  (identity name, module name) — hence each once and in an order fixed by the schema.

The only algorithm of this part is `closure` (breadth-first rounds until nothing new turns up); its
meaning is proved in `Goyang.Props.C11.closure_is_reachability`.  Everything else is a list
comprehension.  For texts RFC 7950 rules out but goyang loads — several identity statements for one
vertex, several revisions of one module — see "Several identity statements for one vertex" below:
the order of registration (ascending table keys; explicit-stack depth-first `preorder` over the
includes; source order), the `survivors`, and `survivorGraph`.  Module names: `isIdentifier`.  Nothing of `Goyang.Model.Identity` is used; the registry functions
(`findModule`, `owner`, `byId`) are the shared reading of import/include/belongs-to statements.
-/
namespace Goyang.Spec.Identity
open Goyang.Model (Registry Mod Stmt Err)

/-- (module name, identity name) -/
abbrev Vertex := String × String

/-! ### Reachability -/

/-- `b` is reachable from `a` in zero or more `succ` steps. -/
inductive Reach {α : Type} (succ : α → List α) : α → α → Prop where
  | refl (a : α) : Reach succ a a
  | step {a b c : α} : b ∈ succ a → Reach succ b c → Reach succ a c

/-- Breadth-first rounds: add the successors that are not yet there until a round adds nothing.
`none` when `rounds` rounds were not enough (`rounds` > number of nodes always is). -/
def closure {α : Type} [DecidableEq α] (succ : α → List α) : Nat → List α → Option (List α)
  | 0, _ => none
  | rounds + 1, s =>
    let new := ((s.flatMap succ).filter (· ∉ s)).eraseDups
    if new.isEmpty then some s else closure succ rounds (s ++ new)

/-! ### From the loaded texts to the identity graph -/

/-- The loaded modules: the values of the module table. -/
def loadedModules (r : Registry) : List Mod := r.modules.filterMap fun kv => r.byId kv.2

/-- Sequence numbers of the submodules that `m`'s include statements denote. -/
def includedBy (r : Registry) (s : Nat) : List Nat :=
  match r.byId s with
  | some m => m.includes.filterMap fun i => (r.findModule true i).map (·.seq)
  | none => []

/-- All parts of the schema (by load sequence number). -/
def parts (r : Registry) : Option (List Mod) :=
  (closure (includedBy r) (r.mods.length + 1) ((loadedModules r).map (·.seq)).eraseDups).map
    fun ss => ss.filterMap r.byId

/-- Split `p:n` at the first colon (no colon: no prefix). -/
def splitName (s : String) : Option String × String :=
  let cs := s.toList
  if cs.contains ':' then
    (some (String.ofList (cs.takeWhile (· != ':'))), String.ofList ((cs.dropWhile (· != ':')).drop 1))
  else (none, s)

/-- The module a reference with optional prefix `p`, written in (sub)module `m`, points into. -/
def moduleOfPrefix (r : Registry) (m : Mod) (p : Option String) : Option Mod :=
  let own := r.owner m
  match p with
  | none => own
  | some p =>
    if p == "" || p == m.getPrefix then own
    else
      match m.imports.find? (fun i => i.argOf? "prefix" == some p) with
      | some i => r.findModule false i
      | none => none

/-- The vertex a base argument written in `m` names (whether or not such an identity exists). -/
def names (r : Registry) (m : Mod) (arg : String) : Option Vertex :=
  let pn := splitName arg
  (moduleOfPrefix r m pn.1).map fun target => (target.name, pn.2)

/-- The identity statements of a part of the schema, each with the vertex it defines. Identities of
a submodule whose module is not loaded define no vertex. -/
def vertexStmts (r : Registry) (m : Mod) : List (Vertex × Stmt) :=
  match r.owner m with
  | some ow => (m.stmt.all "identity").map fun s => ((ow.name, s.arg), s)
  | none => []

structure Graph where
  /-- one per identity statement of the schema -/
  verts : List Vertex
  /-- (derived, base), one per base statement that names a vertex -/
  edges : List (Vertex × Vertex)
  /-- (identity, argument) of the base statements that name no vertex -/
  dangling : List (Vertex × String)
  /-- included submodules whose module is not loaded -/
  orphans : List String
  /-- include and import statements of the schema that denote nothing loaded -/
  missing : List String
  deriving Repr, Inhabited

def graph (r : Registry) : Option Graph :=
  (parts r).map fun ps =>
    let vs := ps.flatMap (vertexStmts r)
    let verts := vs.map (·.1)
    let bases : List (Vertex × String × Option Vertex) := ps.flatMap fun m =>
      (vertexStmts r m).flatMap fun (v, s) => (s.all "base").map fun b => (v, b.arg, names r m b.arg)
    { verts := verts
      edges := bases.filterMap fun (v, _, t) =>
        match t with
        | some b => if b ∈ verts then some (v, b) else none
        | none => none
      dangling := bases.filterMap fun (v, a, t) =>
        match t with
        | some b => if b ∈ verts then none else some (v, a)
        | none => some (v, a)
      orphans := (ps.filter fun m => (r.owner m).isNone).map (·.name)
      missing := ps.flatMap fun m =>
        ((m.includes.filter fun i => (r.findModule true i).isNone) ++
         (m.imports.filter fun i => (r.findModule false i).isNone)).map (·.arg) }

/-- No two identity statements of the schema define the same vertex (RFC 7950 §7.18: identity
names are unique within a module and its submodules; module names are unique). -/
def OneStatementPerVertex (G : Graph) : Prop := G.verts.Nodup

/-! ### Several identity statements for one vertex

RFC 7950 forbids two identity statements with one name in a module and its submodules, and a schema
holds one revision of a module.  goyang accepts such texts, and loads several revisions of one module
side by side.  Its identity dictionary then keeps ONE statement per vertex: the statement that is
registered last.  The order of registration, read off `resolveIdentities`:

* the keys of the module table (`name` and `name@revision`) in ascending (byte) order — so of two
  revisions of one module the later revision comes last, since `name < name@r1 < name@r2`;
* under one key: the module, then what it includes, depth first, each (sub)module where it is
  first met and once only;
* within one (sub)module: source order.

`survivors` are the statements that are not registered again later; `survivorGraph` is the identity
graph of these statements alone: a shadowed statement contributes neither a vertex nor its base
statements.  On a schema with one statement per vertex every statement survives. -/

/-- Depth first, with an explicit stack: take the first (sub)module of `todo`; when it is new, list
it and put what it includes in front of the rest.  `none`: `steps` steps were not enough (one step
per include statement of the schema, plus two, always are). -/
def preorder {α : Type} [DecidableEq α] (succ : α → List α) : Nat → List α → List α → Option (List α)
  | 0, _, _ => none
  | _ + 1, [], seen => some seen
  | steps + 1, x :: todo, seen =>
    if x ∈ seen then preorder succ steps todo seen
    else preorder succ steps (succ x ++ todo) (seen ++ [x])

/-- Put a binding of the module table in front of the first binding with a greater key. -/
def insertKey (kv : String × Nat) : List (String × Nat) → List (String × Nat)
  | [] => [kv]
  | x :: xs => if kv.1 < x.1 then kv :: x :: xs else x :: insertKey kv xs

/-- The bindings of the module table by ascending key. -/
def ascendingKeys (table : List (String × Nat)) : List (String × Nat) := table.foldr insertKey []

def preorderSteps (r : Registry) : Nat := (r.mods.map (·.includes.length)).sum + r.mods.length + 2

/-- The identity statements of the parts `ss` (sequence numbers), in that order, each with its
vertex and the (sub)module that declares it. -/
def statementsOf (r : Registry) (ss : List Nat) : List (Vertex × Mod × Stmt) :=
  (ss.filterMap r.byId).flatMap fun m => (vertexStmts r m).map fun (v, s) => (v, m, s)

/-- The registrations made for the modules `mds`, one after the other. -/
def registrationsFor (r : Registry) : List Mod → Option (List (Vertex × Mod × Stmt))
  | [] => some []
  | md :: rest =>
    match preorder (includedBy r) (preorderSteps r) [md.seq] [] with
    | none => none
    | some ss => (registrationsFor r rest).map (statementsOf r ss ++ ·)

/-- The identity statements in the order in which they are registered:
(vertex, declaring (sub)module, statement). -/
def registrations (r : Registry) : Option (List (Vertex × Mod × Stmt)) :=
  registrationsFor r ((ascendingKeys r.modules).filterMap fun kv => r.byId kv.2)

/-- Of a list of registrations, those whose vertex is not registered again further on. -/
def survivors {β : Type} : List (Vertex × β) → List (Vertex × β)
  | [] => []
  | x :: rest => if rest.any (·.1 == x.1) then survivors rest else x :: survivors rest

/-- The identity graph of the surviving statements (orphans and missing: as in `graph`). -/
def survivorGraph (r : Registry) : Option Graph :=
  match parts r, registrations r with
  | some ps, some regs =>
    let sv := survivors regs
    let verts := sv.map (·.1)
    let bases : List (Vertex × String × Option Vertex) := sv.flatMap fun (v, m, s) =>
      (s.all "base").map fun b => (v, b.arg, names r m b.arg)
    some
      { verts := verts
        edges := bases.filterMap fun (v, _, t) =>
          match t with
          | some b => if b ∈ verts then some (v, b) else none
          | none => none
        dangling := bases.filterMap fun (v, a, t) =>
          match t with
          | some b => if b ∈ verts then none else some (v, a)
          | none => some (v, a)
        orphans := (ps.filter fun m => (r.owner m).isNone).map (·.name)
        missing := ps.flatMap fun m =>
          ((m.includes.filter fun i => (r.findModule true i).isNone) ++
           (m.imports.filter fun i => (r.findModule false i).isNone)).map (·.arg) }
  | _, _ => none

/-! ### Names

RFC 7950 §6.2: `identifier = (ALPHA / "_") *(ALPHA / DIGIT / "_" / "-" / ".")`.  Module and submodule
names are identifiers, so they hold no colon. -/

def identifierChar (c : Char) : Bool := c.isAlphanum || c == '_' || c == '-' || c == '.'

def isIdentifier (s : String) : Bool :=
  match s.toList with
  | [] => false
  | c :: cs => (c.isAlpha || c == '_') && cs.all identifierChar

/-! ### Derivation -/

/-- `j` is derived from `i`: a non-empty chain of base statements leads from `j` to `i`. -/
inductive Derives (G : Graph) : Vertex → Vertex → Prop where
  | base {j i : Vertex} : (j, i) ∈ G.edges → Derives G j i
  | step {j k i : Vertex} : (j, k) ∈ G.edges → Derives G k i → Derives G j i

def Acyclic (G : Graph) : Prop := ∀ v, ¬ Derives G v v

def AllBasesResolve (G : Graph) : Prop := G.dangling = [] ∧ G.orphans = []

/-- The order of the reported lists: by identity name, then by module name. -/
def Before (a b : Vertex) : Prop := a.2 < b.2 ∨ (a.2 = b.2 ∧ a.1 < b.1)

instance (a b : Vertex) : Decidable (Before a b) := by unfold Before; exact inferInstance

/-- What the list `l` reported for identity `i` has to satisfy. -/
structure ValuesOK (G : Graph) (i : Vertex) (l : List Vertex) : Prop where
  exact : ∀ j, j ∈ l ↔ Derives G j i
  ascending : l.Pairwise Before

/-! ### Executable form, for judging observed output -/

/-- The identities that name `v` as a base. -/
def derivedDirectly (G : Graph) (v : Vertex) : List Vertex :=
  (G.edges.filter (·.2 == v)).map (·.1)

/-- All identities derived from `i`. -/
def derived (G : Graph) (i : Vertex) : Option (List Vertex) :=
  closure (derivedDirectly G) (G.verts.length + G.edges.length + 1) (derivedDirectly G i).eraseDups

def hasCycle (G : Graph) : Option Bool :=
  G.verts.foldlM (fun acc v => (derived G v).map fun d => acc || d.contains v) false

/-- `ValuesOK`, decided. -/
def valuesOK (G : Graph) (i : Vertex) (l : List Vertex) : Option Bool :=
  (derived G i).map fun d =>
    l.all (d.contains ·) && d.all (l.contains ·) && decide (l.Pairwise Before)

inductive Verdict where
  | holds
  | violates (why : String)
  /-- the loaded set is not a schema the property speaks about (see `reason`) -/
  | outside (reason : String)
  deriving Repr

/-- The identity an identityref type with base argument `arg`, written in `m`, refers to. -/
def refTarget (r : Registry) (G : Graph) (m : Mod) (arg : String) : Option Vertex :=
  (names r m arg).filter (· ∈ G.verts)

/-- The base arguments of the identityref types a type statement written in `m` stands for: its own,
those of its union members, those behind the typedef of `m` it names (chains bounded by `fuel`).
`none` entries: an identityref without base statement. -/
def basesOfType (m : Mod) : Nat → Stmt → List (Option String)
  | 0, _ => []
  | fuel + 1, ty =>
    if ty.arg == "identityref" then [ty.argOf? "base"]
    else if ty.arg == "union" then (ty.all "type").flatMap (basesOfType m fuel)
    else
      match ((m.stmt.all "typedef").find? (·.arg == ty.arg)).bind (·.one? "type") with
      | some tt => basesOfType m fuel tt
      | none => []

/-- The loaded modules and submodules (those in the tables). -/
def loadedRoots (r : Registry) : List Mod :=
  r.mods.filter fun m => r.modules.any (·.2 == m.seq) || r.subModules.any (·.2 == m.seq)

/-- The identityref types at the top-level nodes (own leaves and leaf-lists, and those of a used
grouping of the same root) of the loaded (sub)modules: (declaring (sub)module, node name, base
argument), one per identityref member. -/
def refs (r : Registry) : List (Mod × String × Option String) :=
  (loadedRoots r).flatMap fun m =>
    let nodes := m.stmt.all "leaf" ++ m.stmt.all "leaf-list" ++
      ((m.stmt.all "uses").flatMap fun u =>
        match (m.stmt.all "grouping").find? (·.arg == u.arg) with
        | some g => g.all "leaf" ++ g.all "leaf-list"
        | none => [])
    nodes.flatMap fun l =>
      match l.one? "type" with
      | some ty => (basesOfType m 8 ty).map fun b => (m, l.arg, b)
      | none => []

/-- Judge an observed result.  `vals`: (vertex, reported list) for the identity statements of the
schema; `refs`: (identity the base statement names, identity the resolved type points at) for the
identityref leaves; `nErrors`: number of errors `Process` reported. -/
def judge (G : Graph) (vals : List (Vertex × List Vertex)) (refs : List (Option Vertex × Option Vertex))
    (nErrors : Nat) : Verdict :=
  if !G.missing.isEmpty then .outside "an include or import statement denotes nothing that is loaded" else
  if G.verts.eraseDups.length != G.verts.length then .outside "two identity statements define the same vertex" else
  match hasCycle G with
  | none => .outside "closure did not finish"
  | some cyc =>
    if cyc || !G.dangling.isEmpty || !G.orphans.isEmpty || refs.any (·.1.isNone) then
      if nErrors == 0 then
        .violates "a derivation cycle, an undefined base or an ownerless submodule, and no error reported"
      else .holds
    else if nErrors != 0 then .violates "errors reported for a well-formed derivation graph"
    else
      match G.verts.find? (fun v => !(vals.any (·.1 == v))) with
      | some v => .violates s!"no list reported for {v.1}:{v.2}"
      | none =>
        match vals.find? (fun (v, l) => valuesOK G v l != some true) with
        | some (v, _) => .violates s!"list of {v.1}:{v.2} is not the ascending list of its derived identities"
        | none =>
          if refs.all (fun (want, got) => want == got) then .holds
          else .violates "an identityref does not point at the identity its base statement names"

end Goyang.Spec.Identity
