import Goyang.Spec.Identity
/-
C11, last sentence: "A base that is undefined, or a derivation cycle, is reported as an error."

Read per cycle and per base statement, not per schema:

* every derivation cycle is reported: for every identity that is derived from itself, the errors
  hold one that says "circular derivation" and is located at the identity statement of a member of
  its cycle (a member: an identity that is derived from it and from which it is derived).  One
  error per cycle is enough; one per member is not demanded.  A cycle that is itself derived from
  another cycle (a member has a further base statement that leads into the other one) is a cycle of
  its own: the report of the upper cycle does not stand for it.
* every base statement that names no identity of the schema is reported: the errors hold one that
  says "undefined base" and is located where goyang locates such errors, at the module or submodule
  statement of the text that writes the base statement.  (Wording is not compared, so two undefined
  bases written in one text are told apart by nothing the comparison sees: one such error per
  writing text is what is demanded.)

What is observed of an error: its position and its class (harness/lib/errclass.go), as in
`Goyang.Model.Err`.  Nothing of `Goyang.Model.Identity` is used.
-/
namespace Goyang.Spec.Identity
open Goyang.Model (Registry Mod Stmt Err)

/-- The classes of the errors that say "this base names no identity". -/
def undefinedBaseClasses : List String := ["identity-base-local", "identity-base-remote", "identity-prefix"]

/-- The class of the errors that say "derived from itself". -/
def cycleClass : String := "cycle"

/-- The error is located at statement `s`. -/
def locatedAt (e : Err) (s : Stmt) : Bool := e.file == s.file && e.line == s.line && e.col == s.col

/-- Every vertex with the identities derived from it. -/
def derivedTable (G : Graph) : Option (List (Vertex × List Vertex)) :=
  G.verts.eraseDups.mapM fun v => (derived G v).map fun d => (v, d)

/-- The members of the cycle of `v`, where `d` are the identities derived from `v`: those from which
`v` is derived in turn.  Empty when `v` is on no cycle; holds `v` itself otherwise. -/
def cycleOf (T : List (Vertex × List Vertex)) (v : Vertex) (d : List Vertex) : List Vertex :=
  d.filter fun w => T.any fun (w', d') => w' == w && d'.contains v

/-- `comp` is named by an error: a circular-derivation error at the identity statement of a member.
`stmts`: the identity statements of the schema, (vertex, declaring (sub)module, statement). -/
def cycleReported (stmts : List (Vertex × Mod × Stmt)) (errs : List Err) (comp : List Vertex) : Bool :=
  stmts.any fun (w, _, s) => comp.contains w && errs.any fun e => e.cls == cycleClass && locatedAt e s

/-- A cycle that no error names: one of its members, and all of them. -/
def unreportedCycle (T : List (Vertex × List Vertex)) (stmts : List (Vertex × Mod × Stmt)) (errs : List Err) :
    Option (Vertex × List Vertex) :=
  T.findSome? fun (v, d) =>
    let comp := cycleOf T v d
    if comp.isEmpty || cycleReported stmts errs comp then none else some (v, comp)

/-- The base statements that name no identity of the schema:
(identity that has the base statement, (sub)module that writes it, its argument). -/
def undefinedBases (r : Registry) (G : Graph) (stmts : List (Vertex × Mod × Stmt)) : List (Vertex × Mod × String) :=
  stmts.flatMap fun (v, m, s) =>
    (s.all "base").filterMap fun b =>
      match names r m b.arg with
      | some t => if t ∈ G.verts then none else some (v, m, b.arg)
      | none => some (v, m, b.arg)

/-- An undefined base that no error names. -/
def unreportedBase (r : Registry) (G : Graph) (stmts : List (Vertex × Mod × Stmt)) (errs : List Err) :
    Option (Vertex × Mod × String) :=
  (undefinedBases r G stmts).find? fun (_, m, _) =>
    !(errs.any fun e => undefinedBaseClasses.contains e.cls && locatedAt e m.stmt)

def showVertices (l : List Vertex) : String := ", ".intercalate (l.map fun v => v.1 ++ ":" ++ v.2)

/-- Judge the observed errors against the schema.  `G`: the identity graph; `stmts`: the identity
statements that make up its vertices; `errs`: the errors `Process` reported. -/
def judgeReports (r : Registry) (G : Graph) (stmts : List (Vertex × Mod × Stmt)) (errs : List Err) : Verdict :=
  match derivedTable G with
  | none => .outside "closure did not finish"
  | some T =>
    match unreportedCycle T stmts errs with
    | some (v, comp) =>
      .violates s!"a derivation cycle is not reported: {v.1}:{v.2} is derived from itself (its cycle: {showVertices comp}) and no circular-derivation error is located at the identity statement of a member of this cycle"
    | none =>
      match unreportedBase r G stmts errs with
      | some (v, m, a) =>
        .violates s!"an undefined base is not reported: base {a} of identity {v.1}:{v.2} names no identity and no undefined-base error is located at {m.name}, the text that writes it"
      | none => .holds

end Goyang.Spec.Identity
