import Goyang.Model.Process
import Goyang.Model.Dump
import Goyang.Spec.Uses
/-
C13, third sentence — "an included submodule contributes its data nodes, typedefs, groupings and
identities to the including module exactly as if they were written there".

Independent reading, as a relation between two registries:

* `Split` names the unsplit module `m`, the owner `owner` (the module that keeps `m`'s name and
  header and gets the `include` statements) and the submodules `subs`.
* `TextOK` says what the *texts* have to do with each other: the owner keeps the header statements
  and the statements whose order across files is not defined (augment, deviation); every body
  statement of `m` (data nodes, rpcs, notifications, uses, groupings) is in exactly one part, as
  the very same statement value; every submodule belongs to `m`, under `m`'s prefix, with `m`'s
  import statements.
* `RegsOK` says what the two *registries* have to do with each other: the split one is the unsplit
  one with `m` replaced by the owner (same load number) and the submodules added.
* `Visible` is the visibility condition of goyang's grouping lookup, in its exact form: from the top
  level of every part, every top-level grouping name of `m` binds to the statement `m` declares
  (`Spec.Uses.bindTop`: the part itself, its includes depth first, for a submodule then its owner
  and the owner's includes).
* `PosWF`, `RefsWF`, `LookupFuelOK` are conditions on a registry that hold of every parsed text of
  sane size: a tracked statement (grouping, module) is identified by its position (goyang's entry
  cache is keyed by the node; the model's by module and position); a prefixed grouping reference
  is well formed in the sense of C06; the model's lookup fuel suffices.
* `PlugSplitOK` is what the theorem needs of the plugged layers (types: C09, identities: C11,
  typedefs): they answer the same for a statement whether it is written in `m` or in a part.

The relation between the results (`SameTop`, `dumpOf`) is stated on the model's trees and on the
canonical dump the correspondence runner compares.  Core Lean only.
-/
namespace Goyang.Spec.Include
open Goyang.Model Goyang.Spec.Uses

/-! ### renaming of module numbers in a tree -/

def renD (σ : Nat → Nat) (d : EData) : EData := { d with nodeMod := σ d.nodeMod }

mutual
/-- The tree with every `nodeMod` (the load number of the module whose text a node was written in)
replaced by `σ` of it.  Nothing else changes. -/
def ren (σ : Nat → Nat) : Entry → Entry
  | .mk d c i o => .mk (renD σ d) (renL σ c) (renL σ i) (renL σ o)
def renL (σ : Nat → Nat) : List Entry → List Entry
  | [] => []
  | e :: es => ren σ e :: renL σ es
end

/-! ### the split -/

structure Split where
  /-- the unsplit module -/
  m : Mod
  /-- the module of the split set: `m`'s header, `include` statements, a part of the body -/
  owner : Mod
  /-- the submodules of the split set -/
  subs : List Mod

namespace Split
def parts (s : Split) : List Mod := s.owner :: s.subs
def isSubSeq (s : Split) (x : Nat) : Bool := s.subs.any (·.seq == x)
/-- Load numbers of the split set read as load numbers of the unsplit set: a submodule's is `m`'s. -/
def σ (s : Split) (x : Nat) : Nat := if s.isSubSeq x then s.m.seq else x
end Split

/-- Top-level statements of a module that `ToEntry` turns into children of the module entry (or,
for groupings, converts and checks): these are what a split distributes. -/
def bodyKws : List String :=
  ["uses", "rpc", "notification", "list", "leaf-list", "leaf", "grouping", "container", "choice", "anyxml", "anydata"]

/-- Header statements that the owner keeps as they are (`augment` and `deviation` stay with the
owner: their relative order across files is not defined). -/
def keptKws : List String :=
  ["description", "augment", "deviation", "import", "prefix", "namespace", "revision", "belongs-to"]

/-- What the texts of the split set have to do with the unsplit module. -/
structure TextOK (s : Split) : Prop where
  m_kw : s.m.stmt.kw = "module"
  owner_kw : s.owner.stmt.kw = "module"
  owner_arg : s.owner.stmt.arg = s.m.stmt.arg
  m_no_include : s.m.stmt.all "include" = []
  m_no_belongs : s.m.stmt.all "belongs-to" = []
  kept : ∀ kw ∈ keptKws, s.owner.stmt.all kw = s.m.stmt.all kw
  sub_kw : ∀ sb ∈ s.subs, sb.stmt.kw = "submodule"
  sub_belongs : ∀ sb ∈ s.subs, sb.belongsTo? = some s.m.name
  sub_prefix : ∀ sb ∈ s.subs, sb.getPrefix = s.m.getPrefix
  sub_imports : ∀ sb ∈ s.subs, sb.stmt.all "import" = s.m.stmt.all "import"
  sub_no_aug : ∀ sb ∈ s.subs, sb.stmt.all "augment" = [] ∧ sb.stmt.all "deviation" = [] ∧ sb.stmt.all "revision" = []
  /-- every body statement of `m` is in exactly one part, as the same statement value -/
  body : ∀ kw ∈ bodyKws, (s.m.stmt.all kw).Perm (s.parts.flatMap (·.stmt.all kw))

/-- `P` has an include statement that resolves to `Q`. -/
def Includes (R' : Registry) (P Q : Mod) : Prop := ∃ a ∈ P.stmt.all "include", R'.findModule true a = some Q

/-- `Q` is reached from `P` through include statements. -/
inductive IncReach (R' : Registry) : Mod → Mod → Prop
  | refl (P : Mod) : IncReach R' P P
  | step {P Q T : Mod} : IncReach R' P Q → Includes R' Q T → IncReach R' P T

/-- What the two registries have to do with each other: `R'` is `R` with `m` replaced by the owner
(same load number, same keys) and the submodules added under their names.  `R` itself has no
submodules (the setting of the metamorphic runner: one module of a set without submodules is split).
The parts may include each other in any way (nested includes) as long as every submodule is reached
from the owner and no part includes itself or is included back by a part it includes. -/
structure RegsOK (s : Split) (R R' : Registry) : Prop where
  m_mem : s.m ∈ R.mods
  owner_seq : s.owner.seq = s.m.seq
  seqs_nodup : (R.mods.map (·.seq)).Nodup
  sub_seqs_fresh : ∀ sb ∈ s.subs, ∀ x ∈ R.mods, sb.seq ≠ x.seq
  sub_seqs_nodup : (s.subs.map (·.seq)).Nodup
  sub_names_nodup : (s.subs.map (·.name)).Nodup
  mods' : R'.mods = R.mods.map (fun x => if x.seq == s.m.seq then s.owner else x) ++ s.subs
  modules' : R'.modules = R.modules
  subModules : R.subModules = []
  subModules' : R'.subModules = s.subs.map fun sb => (sb.name, sb.seq)
  /-- `R` has modules only, none with an include statement -/
  R_modules_only : ∀ x ∈ R.mods, x.stmt.kw = "module" ∧ x.stmt.all "belongs-to" = [] ∧ x.stmt.all "include" = []
  /-- every key of `ms.Modules` is bound to a loaded module -/
  keys_valid : ∀ kv ∈ R.modules, ∃ x ∈ R.mods, x.seq = kv.2
  /-- the unsplit module is bound under its name (it is what `belongs-to` of the parts finds) -/
  m_bound : R.getModule s.m.name = some s.m
  /-- the keys of goyang's merged-submodule bookkeeping (`included:includer`) do not collide -/
  sub_name_ne : ∀ sb ∈ s.subs, sb.name ≠ s.m.name
  /-- every include statement of a part resolves to a submodule of the split -/
  inc_resolve : ∀ P ∈ s.parts, ∀ a ∈ P.stmt.all "include", ∃ sb ∈ s.subs, R'.findModule true a = some sb
  /-- every submodule is reached from the owner through include statements -/
  inc_cover : ∀ sb ∈ s.subs, IncReach R' s.owner sb
  /-- no part includes itself and no two parts include each other (goyang reports exactly these as
  circular; longer include cycles are cut silently by the merged-submodule bookkeeping) -/
  inc_no_back : ∀ P ∈ s.parts, ∀ Q ∈ s.parts, Includes R' P Q → Q ≠ P ∧ ¬ Includes R' Q P
  /-- the bookkeeping keys `a:b` over the names of the parts are read unambiguously (no name
  contains a colon) -/
  keys_inj : ∀ a ∈ s.m.name :: s.subs.map (·.name), ∀ b ∈ s.m.name :: s.subs.map (·.name),
    ∀ c ∈ s.m.name :: s.subs.map (·.name), ∀ d ∈ s.m.name :: s.subs.map (·.name),
    a ++ ":" ++ b = c ++ ":" ++ d → a = c ∧ b = d

/-! ### visibility -/

/-- **The visibility condition.**  From the top level of every part, every top-level grouping name
of `m` binds (goyang's rules: the part, its includes, for a submodule its owner and the owner's
includes) to the statement that `m` declares under that name, found at the top level of a part. -/
def Visible (s : Split) (R' : Registry) (linked' : List Nat) : Prop :=
  ∀ P ∈ s.parts, ∀ g ∈ s.m.stmt.all "grouping",
    ∃ Q ∈ s.parts, bindTop R' linked' P g.arg = some ((declares s.m.stmt g.arg).getD g, Q, [Q.stmt])

/-! ### corresponding places -/

/-- A place of the split set (root (sub)module and ancestor chain of a statement that is not a
(sub)module statement) and the place of the unsplit set it corresponds to: inside a part, the same
inner ancestors below `m`'s statement instead of the part's; in another module, the same place. -/
def CtxRel (s : Split) (R : Registry) (root' : Mod) (scope' : List Stmt) (root : Mod) (scope : List Stmt) : Prop :=
  (root' ∈ s.parts ∧ root = s.m ∧ ∃ inner, scope' = inner ++ [root'.stmt] ∧ scope = inner ++ [s.m.stmt]) ∨
  (root' ∈ R.mods ∧ root'.seq ≠ s.m.seq ∧ root = root' ∧ scope = scope')

/-- What the theorems need of the linking stage (`linkAll`) of the two registries: the linked sets
agree on the common modules and contain `m` resp. every part. -/
structure LinkOK (s : Split) (R : Registry) (linked linked' : List Nat) : Prop where
  same : ∀ x ∈ R.mods, linked'.contains x.seq = linked.contains x.seq
  m_linked : linked.contains s.m.seq = true
  subs_linked : ∀ sb ∈ s.subs, linked'.contains sb.seq = true

/-! ### conditions on one registry -/

/-- `l` is a statement with its ancestors, nearest first, up to the statement `top`. -/
def Chain (top : Stmt) : List Stmt → Prop
  | [] => False
  | [x] => x = top
  | c :: p :: rest => c ∈ p.subs ∧ Chain top (p :: rest)

def isTrackedStmt (n : Stmt) : Bool := n.kw == "module" || n.kw == "submodule" || n.kw == "grouping"

/-- Positions identify tracked statements: two groupings (or (sub)module statements) of loaded
modules with the same module number, line and column are the same statement at the same place. -/
def PosWF (R : Registry) : Prop :=
  ∀ r₁ ∈ R.mods, ∀ r₂ ∈ R.mods, ∀ (n₁ n₂ : Stmt) (sc₁ sc₂ : List Stmt),
    Chain r₁.stmt (n₁ :: sc₁) → Chain r₂.stmt (n₂ :: sc₂) → isTrackedStmt n₁ = true → isTrackedStmt n₂ = true →
    nodeId r₁ n₁ = nodeId r₂ n₂ → r₁ = r₂ ∧ n₁ = n₂ ∧ sc₁ = sc₂

/-- Every `uses` argument written in a loaded module is a well-formed reference (C06: a prefixed
name is not literally declared by an enclosing statement, and at most one import carries the prefix);
no (sub)module statement is nested in another statement. -/
def RefsWF (R : Registry) : Prop :=
  ∀ r ∈ R.mods, ∀ (u : Stmt) (inner : List Stmt), Chain r.stmt (u :: inner ++ [r.stmt]) →
    (∀ x ∈ inner, isModuleStmt x = false) ∧
    (u.kw = "uses" →
      (isBare (localName r u.arg) = true ∨
        ((∀ x ∈ inner ++ [r.stmt], declares x (localName r u.arg) = none) ∧ (importsFor r (localName r u.arg)).length ≤ 1)))

/-- Greatest number of substatements of a statement of the list. -/
def maxSubs : List Stmt → Nat
  | [] => 0
  | s :: l => max s.subs.length (maxSubs l)

/-- Fuel that every `ToEntry` call of `processAll` has to spare (the model's `entryFuel` exceeds
the proved bound `entryNeed` by at least this much). -/
def lookupSlack (R : Registry) : Nat := R.mods.foldl (fun a m => a + stmtCount m.stmt) 0 + 66

/-- The model's grouping lookup is not cut short by its fuel (`findGrouping` gets `2 * fuel + 16`
where `fuel` is what the calling `toEntry` has left): a size condition on the registry — nesting
depth of a `uses` plus (loaded modules + 2) × (widest module statement + 3) against twice the
number of loaded statements + 148.  It holds unless a few modules are extremely wide compared with
the total size. -/
def LookupFuelOK (R : Registry) : Prop :=
  ∀ r ∈ R.mods, ∀ (u : Stmt) (inner : List Stmt), Chain r.stmt (u :: inner ++ [r.stmt]) →
    inner.length + 1 + (R.mods.length + 2) * (maxSubs (r.stmt :: R.mods.map (·.stmt)) + 3) ≤ 2 * lookupSlack R + 16

/-! ### the plugged layers -/

/-- What the theorem needs of the plugged layers (`plug` for the unsplit, `plug'` for the split
registry: the pipeline's plug is built from the registry, `Pipeline.plugFull`): no errors of the identity and typedef stages on
the split set when there are none on the unsplit set, and the same answer of type resolution for a
`type` statement whether its ancestors end in `m`'s statement (root `m`) or in a part's (root the
part); for statements of other modules the two registries answer alike. -/
structure PlugSplitOK (s : Split) (R R' : Registry) (plug plug' : Plug) : Prop where
  identity : plug.identityErrs R = [] → plug'.identityErrs R' = []
  typedefs : plug.typedefErrs R = [] → plug'.typedefErrs R' = []
  types_part : ∀ P ∈ s.parts, ∀ (inner : List Stmt) (t : Stmt),
    plug'.tres.resolve R' P (inner ++ [P.stmt]) t = plug.tres.resolve R s.m (inner ++ [s.m.stmt]) t
  types_other : ∀ x ∈ R.mods, x.seq ≠ s.m.seq → ∀ (scope : List Stmt) (t : Stmt),
    plug'.tres.resolve R' x scope t = plug.tres.resolve R x scope t

/-! ### the relation between the two registries -/

/-- **`R'` is `R` with the module `s.m` split** into the owner `s.owner` and the submodules
`s.subs`, such that every part sees every top-level grouping of `m` under goyang's rules, the plugged
layers answer alike, and both registries satisfy the well-formedness and size conditions above. -/
structure IsSplitOf (s : Split) (R R' : Registry) (plug plug' : Plug) : Prop where
  text : TextOK s
  regs : RegsOK s R R'
  visible : Visible s R' (linkAll R').1
  plugOK : PlugSplitOK s R R' plug plug'
  pos : PosWF R
  pos' : PosWF R'
  refs : RefsWF R
  refs' : RefsWF R'
  fuel : LookupFuelOK R
  fuel' : LookupFuelOK R'

/-! ### the result -/

/-- Equal data but for the statement object and the module number it belongs to. -/
def SameData (a b : EData) : Prop := a = { b with node := a.node, nodeMod := a.nodeMod }

/-- The owner's tree against the unsplit module's, after conversion: the same module entry but for
the statement object, and the same children, each equal but for the module numbers of the nodes that
now live in a submodule's text — in another order. -/
def SameTop (σ : Nat → Nat) (t' t : Entry) : Prop :=
  SameData t'.d t.d ∧ (renL σ t'.dir).Perm t.dir ∧ (t'.inp = [] ∧ t.inp = []) ∧ (t'.out = [] ∧ t.out = [])

/-- The canonical dump of one module's tree, as the correspondence runner prints and compares it
(children in name order at every level; kind, config, type, defaults, constraints, namespace,
read-only, instantiating module; no statement objects, no positions). -/
def dumpOf (o : Outcome) (m : Mod) : List String :=
  match o.forest.tree? m.seq with
  | some root => dumpTree o.reg o.forest m.fullName root m.seq (entryDepth root + 1) [] root
  | none => []

/-- No augment and no deviation statement in any loaded module. -/
def NoAugDev (R : Registry) : Prop :=
  ∀ x ∈ R.mods, x.stmt.all "augment" = [] ∧ x.stmt.all "deviation" = []

end Goyang.Spec.Include
