/-
Specification of indented writing, byte by byte, written without looking at how the Go code
splits and joins: the prefix goes in front of every byte that starts a line.
-/
namespace Goyang.Spec.Indent

abbrev Bytes := List UInt8
def NL : UInt8 := 10

/-- Every output byte tagged: `true` = one of the caller's bytes, `false` = a prefix byte.
`atStart` says whether the next caller byte starts a line. -/
def tagged (pre : Bytes) : (atStart : Bool) → Bytes → List (UInt8 × Bool)
  | _, [] => []
  | atStart, b :: rest =>
    (if atStart then pre.map (·, false) else []) ++ (b, true) :: tagged pre (b == NL) rest

/-- The rendering: the prefix at the start of every line, nothing after the final line break. -/
def render (pre : Bytes) (atStart : Bool) (s : Bytes) : Bytes := (tagged pre atStart s).map (·.1)

/-- Number of caller bytes among the first `k` output bytes. -/
def callerBytesIn (pre : Bytes) (atStart : Bool) (s : Bytes) (k : Nat) : Nat :=
  ((tagged pre atStart s).take k).countP (·.2)

/-- Whether the next byte after text `s` starts a line (given whether `s` itself started at one). -/
def atStartAfter (atStart : Bool) (s : Bytes) : Bool :=
  match s.getLast? with
  | none => atStart
  | some b => b == NL

/-! ### histories with short writes, the caller going on writing

A history is a list of Write calls on one writer, each with what the underlying writer does with the
bytes it is handed in that call: `none` = takes everything, `some k` = takes the first `k` bytes and
reports an error (`k` beyond the end: takes everything and still reports the error).  The caller may
go on writing after a failed call — with the unwritten remainder or with anything else.  What the
property asks then: the bytes accepted so far are rendered as one text; so the line state after a
short write is the state at the cut, not the state at the end of the argument. -/

/-- Line state after the underlying writer took the first `k` bytes of the rendering of `s`
(`some true` = the next caller byte starts a line and still needs its prefix, `some false` = it
does not: the line is open, or its prefix is already out).  `none`: the cut fell inside a prefix —
part of a prefix is out, and no continuation is specified. -/
def cutState (pre : Bytes) (atStart : Bool) (s : Bytes) (k : Nat) : Option Bool :=
  let t := tagged pre atStart s
  let k := min k t.length
  match k with
  | 0 => some atStart                       -- nothing got through: the state is what it was
  | j + 1 =>
    match t[j]? with
    | some (b, true) => some (b == NL)      -- the last byte taken is one of the caller's
    | some (_, false) =>                    -- the last byte taken is a prefix byte:
      match t[j + 1]? with
      | some (_, false) => none             --   not the last one of its prefix
      | _ => some false                     --   the prefix is complete
    | none => some atStart

/-- What a history must give: the bytes the underlying writer ends up with, and per call the count
returned, whether an error is returned, and the line state afterwards (`none`: a cut inside a
prefix; the history is not followed further).  A call with an empty argument does not reach the
underlying writer. -/
def history (pre : Bytes) : (atStart : Bool) → List (Bytes × Option Nat) →
    Bytes × List (Nat × Bool × Option Bool)
  | _, [] => ([], [])
  | a, (c, none) :: rest =>
    let a' := atStartAfter a c
    let (o, r) := history pre a' rest
    (render pre a c ++ o, (c.length, false, some a') :: r)
  | a, (c, some k) :: rest =>
    if c.isEmpty then
      let (o, r) := history pre a rest
      (o, (0, false, some a) :: r)
    else
      let took := (render pre a c).take k
      let n := callerBytesIn pre a c k
      match cutState pre a c k with
      | none => (took, [(n, true, none)])
      | some a' =>
        let (o, r) := history pre a' rest
        (took ++ o, (n, true, some a') :: r)

/-- A history up to and including its first cut inside a prefix (all of it when there is none): the
part of it the specification speaks about. -/
def uptoBrokenCut (pre : Bytes) : (atStart : Bool) → List (Bytes × Option Nat) → List (Bytes × Option Nat)
  | _, [] => []
  | a, (c, none) :: rest => (c, none) :: uptoBrokenCut pre (atStartAfter a c) rest
  | a, (c, some k) :: rest =>
    if c.isEmpty then (c, some k) :: uptoBrokenCut pre a rest
    else
      match cutState pre a c k with
      | none => [(c, some k)]
      | some a' => (c, some k) :: uptoBrokenCut pre a' rest

/-- The prefix that is already out for a line that has no byte yet: the accepted text ends at a line
start (`atStart`), but the line state says the next byte needs no prefix (`st = false`). -/
def pending (pre : Bytes) (atStart st : Bool) : Bytes := if atStart && !st then pre else []

/-- The caller's bytes that were accepted along a history (all of a successful call's argument, the
counted bytes of a failed one), up to its first cut inside a prefix. -/
def accepted (pre : Bytes) : (atStart : Bool) → List (Bytes × Option Nat) → Bytes
  | _, [] => []
  | a, (c, none) :: rest => c ++ accepted pre (atStartAfter a c) rest
  | a, (c, some k) :: rest =>
    if c.isEmpty then accepted pre a rest
    else
      c.take (callerBytesIn pre a c k) ++
        (match cutState pre a c k with
         | none => []
         | some a' => accepted pre a' rest)

/-- The line state at the end of a history; `none`: some cut fell inside a prefix. -/
def finalState (pre : Bytes) : (atStart : Bool) → List (Bytes × Option Nat) → Option Bool
  | a, [] => some a
  | a, (c, none) :: rest => finalState pre (atStartAfter a c) rest
  | a, (c, some k) :: rest =>
    if c.isEmpty then finalState pre a rest
    else
      match cutState pre a c k with
      | none => none
      | some a' => finalState pre a' rest

/-- What a history shows to the caller and the underlying writer (the line states dropped; counts as
Go `int`s). -/
def observed (h : Bytes × List (Nat × Bool × Option Bool)) : Bytes × List (Int × Bool) :=
  (h.1, h.2.map fun r => ((r.1 : Int), r.2.1))

/-- Two stacked indenting writers (outer over inner over the sink), Write calls addressed to either
(`true` = outer): an outer-addressed chunk is rendered with the outer prefix according to the outer
line state, and whatever reaches the inner writer — that rendering, or an inner-addressed chunk as
it is — is rendered with the inner prefix according to the inner line state. -/
def nestedRender (p1 p2 : Bytes) : (ain aout : Bool) → List (Bool × Bytes) → Bytes
  | _, _, [] => []
  | ain, aout, (true, buf) :: rest =>
    let mid := render p2 aout buf
    render p1 ain mid ++ nestedRender p1 p2 (atStartAfter ain mid) (atStartAfter aout buf) rest
  | ain, aout, (false, buf) :: rest =>
    render p1 ain buf ++ nestedRender p1 p2 (atStartAfter ain buf) aout rest

end Goyang.Spec.Indent
