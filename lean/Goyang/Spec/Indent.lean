/-
Specification of indented writing, byte by byte, written without looking at how the Go code
splits and joins: the prefix goes in front of every byte that starts a line.
-/
namespace Goyang.Spec.Indent

abbrev Bytes := List UInt8
def NL : UInt8 := 10

/-- Every output byte tagged: `true` = one of the caller's bytes, `false` = a prefix byte.
`atStart` says whether the next caller byte starts a line. -/
def tagged (pre : Bytes) : (atStart : Bool) → Bytes → List (UInt8 × Bool)
  | _, [] => []
  | atStart, b :: rest =>
    (if atStart then pre.map (·, false) else []) ++ (b, true) :: tagged pre (b == NL) rest

/-- The rendering: the prefix at the start of every line, nothing after the final line break. -/
def render (pre : Bytes) (atStart : Bool) (s : Bytes) : Bytes := (tagged pre atStart s).map (·.1)

/-- Number of caller bytes among the first `k` output bytes. -/
def callerBytesIn (pre : Bytes) (atStart : Bool) (s : Bytes) (k : Nat) : Nat :=
  ((tagged pre atStart s).take k).countP (·.2)

/-- Whether the next byte after text `s` starts a line (given whether `s` itself started at one). -/
def atStartAfter (atStart : Bool) (s : Bytes) : Bool :=
  match s.getLast? with
  | none => atStart
  | some b => b == NL

/-- Two stacked indenting writers (outer over inner over the sink), Write calls addressed to either
(`true` = outer): an outer-addressed chunk is rendered with the outer prefix according to the outer
line state, and whatever reaches the inner writer — that rendering, or an inner-addressed chunk as
it is — is rendered with the inner prefix according to the inner line state. -/
def nestedRender (p1 p2 : Bytes) : (ain aout : Bool) → List (Bool × Bytes) → Bytes
  | _, _, [] => []
  | ain, aout, (true, buf) :: rest =>
    let mid := render p2 aout buf
    render p1 ain mid ++ nestedRender p1 p2 (atStartAfter ain mid) (atStartAfter aout buf) rest
  | ain, aout, (false, buf) :: rest =>
    render p1 ain buf ++ nestedRender p1 p2 (atStartAfter ain buf) aout rest

end Goyang.Spec.Indent
