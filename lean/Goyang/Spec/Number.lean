/-
Specification for C15: what a `Number` denotes and what printing, parsing, converting and comparing
have to do, written with exact (unbounded) integer / rational arithmetic and without reference to
the Go algorithms (no truncation, no 64-bit words, no digit loops shared with the model).

  ⟦n⟧ = (if neg then -value else value) / 10^fd          (`den`, a `Rat`)

Order and equality of denotations are also given in the cross-multiplied integer form (`lt`, `eq`),
which is what the executable oracle evaluates; `Goyang.Props.C15.den_lt_iff/den_eq_iff` connect the two.
Core Lean only.
-/
import Goyang.Model.Number

namespace Goyang.Spec.Number
open Goyang.Model.Number (Number)

/-- signed mantissa -/
def num (n : Number) : Int := if n.neg then -(n.value : Int) else (n.value : Int)

/-- the rational number a `Number` denotes -/
def den (n : Number) : Rat := (num n : Rat) / ((10 : Rat) ^ n.fd)

/-- `⟦n⟧ < ⟦m⟧`, cross-multiplied -/
def lt (n m : Number) : Prop := num n * (10 : Int) ^ m.fd < num m * (10 : Int) ^ n.fd

/-- `⟦n⟧ = ⟦m⟧`, cross-multiplied -/
def eq (n m : Number) : Prop := num n * (10 : Int) ^ m.fd = num m * (10 : Int) ^ n.fd

instance (n m : Number) : Decidable (lt n m) := by unfold lt; exact inferInstance
instance (n m : Number) : Decidable (eq n m) := by unfold eq; exact inferInstance

/-- the domain of the ordering theorems: a 64-bit magnitude and at most 18 fraction digits -/
def WF (n : Number) : Prop := n.value < 2 ^ 64 ∧ n.fd ≤ 18

/-- an integer of 64-bit magnitude with sign -/
def WFInt (n : Number) : Prop := n.fd = 0 ∧ n.value < 2 ^ 64

/-- a decimal64 value: signed 64-bit mantissa, 1 to 18 fraction digits -/
def WFDec (n : Number) : Prop :=
  1 ≤ n.fd ∧ n.fd ≤ 18 ∧ (if n.neg then n.value ≤ 2 ^ 63 else n.value < 2 ^ 63)

instance (n : Number) : Decidable (WF n) := by unfold WF; exact inferInstance
instance (n : Number) : Decidable (WFInt n) := by unfold WFInt; exact inferInstance
instance (n : Number) : Decidable (WFDec n) := by unfold WFDec; exact inferInstance

def inInt64 (i : Int) : Prop := -(2 : Int) ^ 63 ≤ i ∧ i < (2 : Int) ^ 63
instance (i : Int) : Decidable (inInt64 i) := by unfold inInt64; exact inferInstance

/-- exact conversion to a signed 64-bit integer: the value, or `none` (decimal or out of int64) -/
def toInt64 (n : Number) : Option Int :=
  if n.fd = 0 ∧ inInt64 (num n) then some (num n) else none

/-! ### literals `[sign] digits [. digits]` -/

/-- a written literal: optional sign (`some true` = `-`, `some false` = `+`), integer-part digits,
    optional `.` followed by fraction digits.  Digits are numbers below 10. -/
structure Lit where
  sign : Option Bool
  ip : List Nat
  fp : Option (List Nat)
deriving Repr, DecidableEq

def Lit.digitsOK (l : Lit) : Prop := (∀ d ∈ l.ip, d < 10) ∧ (∀ d ∈ l.fp.getD [], d < 10)

/-- the stated form: both digit strings non-empty -/
def Lit.proper (l : Lit) : Prop := l.ip ≠ [] ∧ l.fp ≠ some []

/-- no superfluous leading zeros in the integer part -/
def Lit.noLeadingZero (l : Lit) : Prop := l.ip = [0] ∨ l.ip.head? ≠ some 0

/-- value of a digit string, most significant digit first (Horner) -/
def digitsVal (ds : List Nat) : Nat := ds.foldl (fun a d => a * 10 + d) 0

def Lit.neg (l : Lit) : Bool := l.sign = some true

/-- number of fraction digits written -/
def Lit.scale (l : Lit) : Nat := (l.fp.getD []).length

/-- magnitude of the literal scaled by `10^scale` -/
def Lit.mant (l : Lit) : Nat := digitsVal (l.ip ++ l.fp.getD [])

/-- the literal denotes `±mant / 10^scale` -/
def Lit.num (l : Lit) : Int := if l.neg then -(l.mant : Int) else (l.mant : Int)

def Lit.den (l : Lit) : Rat := (l.num : Rat) / ((10 : Rat) ^ l.scale)

/-- the bytes of a literal -/
def Lit.render (l : Lit) : List UInt8 :=
  (match l.sign with | none => [] | some true => [45] | some false => [43])
  ++ l.ip.map (fun d => UInt8.ofNat (48 + d))
  ++ (match l.fp with | none => [] | some f => 46 :: f.map (fun d => UInt8.ofNat (48 + d)))

/-- what parsing `l` as a decimal with `f` fraction digits must give: the number with mantissa
    `mant * 10^(f - scale)`; `none` (an error) when more than `f` fraction digits are written or the
    scaled mantissa is not a signed 64-bit integer.  A zero mantissa has no sign. -/
def parseDecimalSpec (l : Lit) (f : Nat) : Option Number :=
  if l.scale > f then none
  else
    let m := l.mant * 10 ^ (f - l.scale)
    if (if l.neg then m ≤ 2 ^ 63 else m < 2 ^ 63) then
      some { value := m, fd := f, neg := l.neg && m != 0 }
    else none

/-- what parsing an integer literal (no fraction part, no superfluous leading zero) must give -/
def parseIntSpec (l : Lit) : Option Number :=
  if l.mant < 2 ^ 64 then some { value := l.mant, fd := 0, neg := l.neg } else none

/-! ### reading a literal back from bytes (executable oracle only) -/

def readDigits : List UInt8 → List Nat → List Nat × List UInt8
  | [], acc => (acc.reverse, [])
  | c :: rest, acc =>
    if 48 ≤ c.toNat ∧ c.toNat ≤ 57 then readDigits rest ((c.toNat - 48) :: acc) else (acc.reverse, c :: rest)

/-- `some l` iff the bytes are exactly `l.render` for a literal `l` (any digit strings, possibly empty) -/
def readLit (s : List UInt8) : Option Lit :=
  let (sign, s) : Option Bool × List UInt8 :=
    match s with
    | 45 :: r => (some true, r)
    | 43 :: r => (some false, r)
    | _ => (none, s)
  let (ip, s) := readDigits s []
  match s with
  | [] => some { sign := sign, ip := ip, fp := none }
  | 46 :: r =>
    let (fp, s) := readDigits r []
    if s = [] then some { sign := sign, ip := ip, fp := some fp } else none
  | _ => none

instance (l : Lit) : Decidable l.proper := by unfold Lit.proper; exact inferInstance
instance (l : Lit) : Decidable l.noLeadingZero := by unfold Lit.noLeadingZero; exact inferInstance

end Goyang.Spec.Number
