/-
Reference reader for C02/C16: RFC 7950 section 6 read off the text, over Unicode characters
(`List Char`), written in the order the RFC describes it and not as a state machine with cursor
bookkeeping.

1. `tokenize`: skip white space and comments; `;` `{` `}`; single-quoted text up to the next `'`;
   double-quoted *raw* text up to the first unescaped `"` (kept as items: literal character or
   backslash pair); otherwise the maximal run of characters that are not white space, a quote,
   `;`, `{` or `}`.  A token only remembers the offset of its first character.
2. `dequote`: three separate passes over the raw double-quoted text (6.1.3), line by line:
   trailing blanks before a line break are dropped; continuation lines lose leading blanks up to
   and including the column of the opening quote (a tab reaches to the next multiple of 8);
   `\n \t \" \\` are substituted — any other backslash pair rejects the text, except in the
   argument of a `pattern` statement where it is kept verbatim.
   A backslash pair is not a literal character: an escaped blank or line break takes no part in
   the first two passes.
3. `argument`: quoted pieces joined by unquoted `+` tokens are concatenated (6.1.3.1).
4. `stmt`/`stmts`: `statement = keyword [argument] (";" / "{" *statement "}")` (6.3); the
   keyword must be an unquoted token.
Positions come from the text alone: `lineOf` = 1 + number of line feeds before the offset,
`colOf` = 1 + characters since the last line feed, `quoteCol` = the same with tabs expanded.

`Admissible` excludes exactly the four constructs property C02 leaves outside its claim.
-/
namespace Goyang.Spec.Parse

/-! ## positions -/

/-- the part of `pre` after its last line feed -/
def lastLine (pre : List Char) : List Char := (pre.reverse.takeWhile (· != '\n')).reverse

/-- display width of a line prefix, a tab reaching to the next multiple of 8 -/
def tabWidth (l : List Char) : Nat :=
  l.foldl (fun w c => if c = '\t' then (w / 8 + 1) * 8 else w + 1) 0

/-- line (1-based) of the character at offset `off` -/
def lineOf (text : List Char) (off : Nat) : Nat := 1 + (text.take off).count '\n'

/-- column (1-based, in characters) of the character at offset `off` -/
def colOf (text : List Char) (off : Nat) : Nat := 1 + (lastLine (text.take off)).length

/-- column (1-based, tabs expanded) of the character at offset `off` -/
def quoteCol (text : List Char) (off : Nat) : Nat := 1 + tabWidth (lastLine (text.take off))

/-! ## tokens -/

def isBlank (c : Char) : Bool := c = ' ' || c = '\t'
def isSpace (c : Char) : Bool := c = ' ' || c = '\t' || c = '\r' || c = '\n'
/-- what ends an unquoted token (besides the end of the text) -/
def isDelim (c : Char) : Bool := isSpace c || c = ';' || c = '{' || c = '}' || c = '"' || c = '\''

/-- one item of raw double-quoted text -/
inductive QItem
  | lit (c : Char)             -- the character itself
  | esc (c : Char)             -- backslash followed by `c`
  deriving DecidableEq, Repr

inductive Tok
  | semi | lbrace | rbrace
  | unq (s : List Char)
  | sq (s : List Char)         -- single-quoted: the text between the quotes
  | dq (raw : List QItem)      -- double-quoted: the raw items between the quotes
  deriving DecidableEq, Repr

/-- a token and the offset of its first character (for quoted ones: of the opening quote) -/
structure PTok where
  tok : Tok
  off : Nat
  deriving DecidableEq, Repr

mutual
/-- skip white space and comments; `none`: a block comment is not closed -/
def skipGround : List Char → Option (List Char)
  | [] => some []
  | c :: cs =>
    if isSpace c then skipGround cs
    else if c = '/' then afterSlash cs
    else some (c :: cs)
/-- after a `/` that follows white space or a comment: a comment opener, or the start of a token -/
def afterSlash : List Char → Option (List Char)
  | [] => some ['/']
  | c :: cs =>
    if c = '/' then skipLine cs
    else if c = '*' then skipBlock false cs
    else some ('/' :: c :: cs)
/-- inside `// …`: up to and including the end of the line -/
def skipLine : List Char → Option (List Char)
  | [] => some []
  | c :: cs => if c = '\n' then skipGround cs else skipLine cs
/-- inside `/* …`: up to and including the nearest `*/`; `star`: the previous character of the
comment text was `*` -/
def skipBlock (star : Bool) : List Char → Option (List Char)
  | [] => none
  | c :: cs => if star && c = '/' then skipGround cs else skipBlock (c = '*') cs
end

/-- text up to the next `'`, and what follows the quote -/
def scanSq : List Char → Option (List Char × List Char)
  | [] => none
  | c :: cs =>
    if c = '\'' then some ([], cs)
    else (scanSq cs).map fun (s, r) => (c :: s, r)

/-- raw items up to the first unescaped `"`, and what follows it -/
def scanDq : List Char → Option (List QItem × List Char)
  | [] => none
  | c :: cs =>
    if c = '"' then some ([], cs)
    else if c = '\\' then
      match cs with
      | [] => none
      | e :: r => (scanDq r).map fun (s, r') => (.esc e :: s, r')
    else (scanDq cs).map fun (s, r') => (.lit c :: s, r')

/-- tokens of `cs`, which is the tail of a text of `n` characters.  Fuel: `cs.length + 1`. -/
def tokensAux (n : Nat) : Nat → List Char → Option (List PTok)
  | 0, _ => none
  | f + 1, cs =>
    match skipGround cs with
    | none => none
    | some [] => some []
    | some (c :: r) =>
      let off := n - (r.length + 1)
      if c = ';' then (tokensAux n f r).map (⟨.semi, off⟩ :: ·)
      else if c = '{' then (tokensAux n f r).map (⟨.lbrace, off⟩ :: ·)
      else if c = '}' then (tokensAux n f r).map (⟨.rbrace, off⟩ :: ·)
      else if c = '\'' then
        match scanSq r with
        | none => none
        | some (s, r') => (tokensAux n f r').map (⟨.sq s, off⟩ :: ·)
      else if c = '"' then
        match scanDq r with
        | none => none
        | some (s, r') => (tokensAux n f r').map (⟨.dq s, off⟩ :: ·)
      else
        let s := (c :: r).takeWhile (fun x => !isDelim x)
        let r' := (c :: r).dropWhile (fun x => !isDelim x)
        (tokensAux n f r').map (⟨.unq s, off⟩ :: ·)

/-- `none`: an unterminated quote or comment -/
def tokenize (text : List Char) : Option (List PTok) :=
  tokensAux text.length (text.length + 1) text

/-! ## double-quoted strings (RFC 7950 6.1.3) -/

def isLitBlank : QItem → Bool
  | .lit c => isBlank c
  | .esc _ => false

/-- split at literal line feeds; `"a\nb"` has the two lines `a` and `b`; never empty -/
def splitLines : List QItem → List (List QItem)
  | [] => [[]]
  | q :: qs =>
    match splitLines qs with
    | [] => [[q]]              -- not reached
    | l :: ls => if q = .lit '\n' then [] :: l :: ls else (q :: l) :: ls

/-- put the line feeds back -/
def joinLines : List (List QItem) → List QItem
  | [] => []
  | [l] => l
  | l :: ls => l ++ .lit '\n' :: joinLines ls

/-- pass 1 on one line: drop the blanks at its end -/
def stripTrail (l : List QItem) : List QItem := (l.reverse.dropWhile isLitBlank).reverse

/-- pass 2 on one line: drop leading blanks while they end at or before column `qcol`;
`w` is the width of what has been dropped so far -/
def stripLead (qcol : Nat) : Nat → List QItem → List QItem
  | w, .lit c :: r =>
    if c = ' ' then (if w + 1 ≤ qcol then stripLead qcol (w + 1) r else .lit c :: r)
    else if c = '\t' then (if (w / 8 + 1) * 8 ≤ qcol then stripLead qcol ((w / 8 + 1) * 8) r else .lit c :: r)
    else .lit c :: r
  | _, l => l

/-- `f` on every line that is followed by a line break -/
def mapInit (f : List QItem → List QItem) : List (List QItem) → List (List QItem)
  | [] => []
  | [l] => [l]
  | l :: ls => f l :: mapInit f ls

/-- `f` on every line that follows a line break -/
def mapTail (f : List QItem → List QItem) : List (List QItem) → List (List QItem)
  | [] => []
  | l :: ls => l :: ls.map f

/-- pass 3: substitute backslash pairs; `none`: a pair the RFC does not define (outside a pattern) -/
def subst (pattern : Bool) : List QItem → Option (List Char)
  | [] => some []
  | .lit c :: r => (subst pattern r).map (c :: ·)
  | .esc c :: r =>
    if c = 'n' then (subst pattern r).map ('\n' :: ·)
    else if c = 't' then (subst pattern r).map ('\t' :: ·)
    else if c = '"' then (subst pattern r).map ('"' :: ·)
    else if c = '\\' then (subst pattern r).map ('\\' :: ·)
    else if pattern then (subst pattern r).map ('\\' :: c :: ·)
    else none

/-- the lines of the raw text after passes 1 and 2 -/
def strippedLines (qcol : Nat) (raw : List QItem) : List (List QItem) :=
  mapTail (stripLead qcol 0) (mapInit stripTrail (splitLines raw))

/-- value of a double-quoted string whose opening quote stands in column `qcol` -/
def dequote (pattern : Bool) (qcol : Nat) (raw : List QItem) : Option (List Char) :=
  subst pattern (joinLines (strippedLines qcol raw))

/-! ## arguments and statements -/

/-- statement as read: keyword, argument if any, position of the keyword, substatements -/
structure Stmt where
  keyword : List Char
  arg     : Option (List Char)
  line    : Nat
  col     : Nat
  subs    : List Stmt
  deriving Repr

def Tok.isQuoted : Tok → Bool
  | .sq _ | .dq _ => true
  | _ => false

/-- value of one quoted piece -/
def piece (text : List Char) (pattern : Bool) : PTok → Option (List Char)
  | ⟨.sq s, _⟩ => some s
  | ⟨.dq raw, off⟩ => dequote pattern (quoteCol text off) raw
  | _ => none

/-- `*( "+" quoted )` after a quoted piece: the concatenated values and the remaining tokens -/
def concatTail (text : List Char) (pattern : Bool) : List PTok → Option (List Char × List PTok)
  | p :: q :: rest =>
    if p.tok = .unq ['+'] && q.tok.isQuoted then
      match piece text pattern q, concatTail text pattern rest with
      | some s, some (s', r) => some (s ++ s', r)
      | _, _ => none
    else some ([], p :: q :: rest)
  | ts => some ([], ts)

/-- `[argument]`: an unquoted token, or quoted pieces joined by `+`; `some (none, ts)`: no argument -/
def argument (text : List Char) (pattern : Bool) : List PTok → Option (Option (List Char) × List PTok)
  | [] => some (none, [])
  | t :: ts =>
    match t.tok with
    | .unq a => some (some a, ts)
    | .sq _ | .dq _ =>
      match piece text pattern t, concatTail text pattern ts with
      | some s, some (s', r) => some (some (s ++ s'), r)
      | _, _ => none
    | _ => some (none, t :: ts)

def patternKw : List Char := ['p', 'a', 't', 't', 'e', 'r', 'n']

mutual
/-- one statement.  Fuel: number of tokens + 1. -/
def stmt (text : List Char) : Nat → List PTok → Option (Stmt × List PTok)
  | 0, _ => none
  | _, [] => none
  | f + 1, k :: ts =>
    match k.tok with
    | .unq kw =>
      match argument text (kw = patternKw) ts with
      | none => none
      | some (arg, ts) =>
        match ts with
        | e :: r =>
          if e.tok = .semi then
            some ({ keyword := kw, arg := arg, line := lineOf text k.off, col := colOf text k.off, subs := [] }, r)
          else if e.tok = .lbrace then
            match stmts text f r with
            | some (subs, c :: r') =>
              if c.tok = .rbrace then
                some ({ keyword := kw, arg := arg, line := lineOf text k.off, col := colOf text k.off,
                        subs := subs }, r')
              else none
            | _ => none
          else none
        | [] => none
    | _ => none
/-- `*statement`: statements up to a `}` or the end of the tokens -/
def stmts (text : List Char) : Nat → List PTok → Option (List Stmt × List PTok)
  | 0, _ => none
  | _, [] => some ([], [])
  | f + 1, t :: ts =>
    if t.tok = .rbrace then some ([], t :: ts)
    else
      match stmt text f (t :: ts) with
      | none => none
      | some (s, r) =>
        match stmts text f r with
        | none => none
        | some (ss, r') => some (s :: ss, r')
end

/-- the statements of a token list that is consumed entirely -/
def parseTokens (text : List Char) (toks : List PTok) : Option (List Stmt) :=
  match stmts text (toks.length + 1) toks with
  | some (forest, []) => some forest
  | _ => none

/-- the reference reader: `none` = the text is not a sequence of YANG statements -/
def parse (text : List Char) : Option (List Stmt) :=
  match tokenize text with
  | none => none
  | some toks => parseTokens text toks

/-! ## the constructs outside the claim -/

/-- a comment opener inside an unquoted token -/
def hasCommentOpener : List Char → Bool
  | '/' :: c :: r => c = '/' || c = '*' || hasCommentOpener (c :: r)
  | _ :: r => hasCommentOpener r
  | [] => false

/-- a tab among the leading blanks of a continuation line that begins at or before the quote
column and ends beyond it (`w` as in `stripLead`) -/
def leadStraddles (qcol : Nat) : Nat → List QItem → Bool
  | w, .lit c :: r =>
    if c = ' ' then (if w + 1 ≤ qcol then leadStraddles qcol (w + 1) r else false)
    else if c = '\t' then
      (if (w / 8 + 1) * 8 ≤ qcol then leadStraddles qcol ((w / 8 + 1) * 8) r else decide (w < qcol))
    else false
  | _, _ => false

/-- a backslash pair that stands for (or ends in) a blank -/
def isEscBlank : QItem → Bool
  | .esc c => c = 't' || c = ' ' || c = '\t'
  | .lit _ => false

/-- a double-quoted string is outside the claim when a tab straddles the strip column, when a line
ends (before a literal line break, trailing blanks aside) in a blank produced by an escape, or when
a literal line break is preceded by a carriage return -/
def dqExcluded (qcol : Nat) (raw : List QItem) : Bool :=
  let ls := splitLines raw
  let init := ls.dropLast
  init.any (fun l => l.getLast? = some (.lit '\r'))
  || init.any (fun l => match (stripTrail l).getLast? with | some q => isEscBlank q | none => false)
  || ((mapInit stripTrail ls).drop 1).any (leadStraddles qcol 0)

def tokExcluded (text : List Char) : PTok → Bool
  | ⟨.unq s, _⟩ => hasCommentOpener s
  | ⟨.dq raw, off⟩ => dqExcluded (quoteCol text off) raw
  | _ => false

/-- the text contains none of the four constructs the property excludes (a text whose quotes or
comments are not closed is rejected whatever else it contains) -/
def Admissible (text : List Char) : Bool :=
  match tokenize text with
  | none => true
  | some toks => toks.all (fun t => !tokExcluded text t)

/-! ## positions an error may name (C16) -/

mutual
/-- if a block comment of `cs` is not closed: how many characters remain at its opener -/
def openerGround : List Char → Option Nat
  | [] => none
  | c :: cs =>
    if isSpace c then openerGround cs
    else if c = '/' then openerSlash (cs.length + 1) cs
    else none
def openerSlash (k : Nat) : List Char → Option Nat
  | [] => none
  | c :: cs =>
    if c = '/' then openerLine cs
    else if c = '*' then openerBlock k false cs
    else none
def openerLine : List Char → Option Nat
  | [] => none
  | c :: cs => if c = '\n' then openerGround cs else openerLine cs
def openerBlock (k : Nat) (star : Bool) : List Char → Option Nat
  | [] => some k
  | c :: cs => if star && c = '/' then openerGround cs else openerBlock k (c = '*') cs
end

/-- offsets of the backslashes of undefined pairs in raw double-quoted text starting at offset `off`
(up to the closing quote, or to the end of the text when the string is not closed; a backslash that
ends the text escapes the line feed the lexer appends) -/
def escMarks : Nat → List Char → List Nat
  | _, [] => []
  | off, c :: cs =>
    if c = '"' then []
    else if c = '\\' then
      match cs with
      | [] => [off]
      | e :: r =>
        if e = 'n' || e = 't' || e = '"' || e = '\\' then escMarks (off + 2) r
        else off :: escMarks (off + 2) r
    else escMarks (off + 1) cs

/-- what an error line about a token may point at: `t` the first character of a token, `b` a `}`,
`e` the backslash of an undefined pair in a double-quoted string, `q` / `d` / `c` the opener of a
single-quoted string, double-quoted string or block comment that is never closed (the scan ends there).
`cs` is the tail of a text of `n` characters.  Fuel: `cs.length + 1`. -/
def marks (n : Nat) : Nat → List Char → List (Char × Nat)
  | 0, _ => []
  | f + 1, cs =>
    match skipGround cs with
    | none =>
      match openerGround cs with
      | some k => [('c', n - k)]
      | none => []
    | some [] => []
    | some (c :: r) =>
      let off := n - (r.length + 1)
      if c = ';' || c = '{' then ('t', off) :: marks n f r
      else if c = '}' then ('t', off) :: ('b', off) :: marks n f r
      else if c = '\'' then
        match scanSq r with
        | none => [('t', off), ('q', off)]
        | some (_, r') => ('t', off) :: marks n f r'
      else if c = '"' then
        match scanDq r with
        | none => ('t', off) :: ('d', off) :: (escMarks (off + 1) r).map fun o => ('e', o)
        | some (_, r') => ('t', off) :: ((escMarks (off + 1) r).map fun o => ('e', o)) ++ marks n f r'
      else ('t', off) :: marks n f ((c :: r).dropWhile (fun x => !isDelim x))

end Goyang.Spec.Parse
