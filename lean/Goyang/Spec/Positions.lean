import Goyang.Model.Process
import Goyang.Spec.Ast
/-
Specification for the semantic half of property C16 — "every file:line:column that appears in an
error from building or resolving a module is the start of a statement of that file, namely the
unknown substatement itself, the statement that lacks a mandatory substatement, or the type, uses,
range, length or enum statement whose name or value is bad".

The statement positions themselves (file, line, column of the first character of the keyword) are
the business of the lexer / parser half (Props/C16.lean, C02 layer); here they are the `file`,
`line`, `col` fields of the statements the resolver was given.

 * `Within s top`         — `s` is `top` or one of its transitive substatements.
 * `StmtOf reg s`         — `s` occurs in the statement tree of a loaded (sub)module.
 * `StmtPositions reg f l c` — some statement of a loaded (sub)module starts at `f:l:c`.
 * `Positioned e`         — the error message starts with a position (`file:line:col:` or `line l:c:`).
 * `PosOK reg e`          — a positioned error names the start of a statement of a loaded (sub)module.
 * `PosAt K reg e`, `Names` — the finer form: the statement is the one the error class names.
 * `PlugPositionsOK reg plug` / `PlugPositionsAt K reg plug` — the layers plugged into `processAll`
   (type, identity and typedef resolution) keep that discipline when they are asked about
   statements of loaded modules.
 * `allPositions`, `posOKb` — executable forms (proved equivalent in Lemmas/PositionsSem.lean).
 * `Ast.Within`, `Ast.Blames` — the same for the AST builder, whose statements carry no file name
   (one text is built at a time): which statement a positioned builder error is about.
-/
namespace Goyang.Spec.Positions
section Resolver
open Goyang.Model

/-- `s` occurs in the statement tree `top`: it is `top` itself or a transitive substatement. -/
inductive Within : Stmt → Stmt → Prop
  | top (t : Stmt) : Within t t
  | sub {p c t : Stmt} : Within p t → c ∈ p.subs → Within c t

/-- `s` is a statement of a loaded module or submodule. -/
def StmtOf (reg : Registry) (s : Stmt) : Prop := ∃ m ∈ reg.mods, Within s m.stmt

/-- `file:line:col` is the start of a statement of a loaded module or submodule. -/
def StmtPositions (reg : Registry) (file : String) (line col : Nat) : Prop :=
  ∃ s, StmtOf reg s ∧ s.file = file ∧ s.line = line ∧ s.col = col

/-- The error carries a position (Go: the message starts with `Statement.Location()` of a statement
whose file or line is known; `Err.render` prints `-:0:0:` otherwise). -/
def Positioned (e : Err) : Prop := e.file ≠ "" ∨ e.line ≠ 0

instance (e : Err) : Decidable (Positioned e) := by unfold Positioned; infer_instance

/-- A positioned error names the start of a statement of a loaded (sub)module. -/
def PosOK (reg : Registry) (e : Err) : Prop := Positioned e → StmtPositions reg e.file e.line e.col

/-- The error stands at the start of statement `s`. -/
def At (e : Err) (s : Stmt) : Prop := e.file = s.file ∧ e.line = s.line ∧ e.col = s.col

/-- The finer form: a positioned error stands at the start of a statement `s` of a loaded
(sub)module that is related to the error's class by `K` ("an error of this class names that kind
of statement"). -/
def PosAt (K : String → Stmt → Prop) (reg : Registry) (e : Err) : Prop :=
  Positioned e → ∃ s, StmtOf reg s ∧ At e s ∧ K e.cls s

/-- The classes of the errors about a member of an enumeration or of a bit set (duplicate name,
duplicate / too small / too large value, no value left). -/
def enumClasses : List String :=
  ["enum-dup-name", "enum-dup-value", "enum-too-small", "enum-too-large", "enum-max-reached"]

/-- Which statement the error classes of the entry layer and of the type layer name:
 * an unknown grouping: the `uses` statement;
 * a bad `ordered-by`, `max-elements`, `min-elements` value: that substatement;
 * a bad `config` / `mandatory` value: the statement that holds it;
 * an unknown type name or prefix: the `type` statement;
 * a bad `range` / `length` restriction: the `range` / `length` statement;
 * a bad enum or bit member: that `enum` / `bit` statement.
Other classes (duplicate keys and nodes, augment and deviation failures, cycles, …) are
unconstrained here: they name the node, the grouping, the augment or the deviating module. -/
def Names (cls : String) (s : Stmt) : Prop :=
  (cls = "unknown-group" → s.kw = "uses") ∧
  (cls = "bad-ordered-by" → s.kw = "ordered-by") ∧
  (cls = "bad-max-elements" → s.kw = "max-elements") ∧
  (cls = "bad-min-elements" → s.kw = "min-elements") ∧
  (cls = "bad-tristate" → ∃ v ∈ s.subs, (v.kw = "config" ∨ v.kw = "mandatory") ∧ v.arg ≠ "true" ∧ v.arg ≠ "false") ∧
  (cls = "unknown-type" → s.kw = "type") ∧
  (cls = "unknown-prefix" → s.kw = "type") ∧
  (cls = "bad-range" → s.kw = "range") ∧
  (cls = "bad-length" → s.kw = "length") ∧
  (cls = "negative-length" → s.kw = "length") ∧
  (cls ∈ enumClasses → s.kw = "enum" ∨ s.kw = "bit")

/-- The plugged layers keep the discipline `K`: asked about a `type` statement `t` (with ancestors
`scope`) of a loaded module `root`, the type resolver only reports positions of statements of
loaded modules (related to the class by `K`); so do identity resolution and typedef resolution
over the whole loaded set. -/
structure PlugPositionsAt (K : String → Stmt → Prop) (reg : Registry) (plug : Plug) : Prop where
  resolve : ∀ root scope t, root ∈ reg.mods → Within t root.stmt → t.kw = "type" →
    (∀ s ∈ scope, Within s root.stmt) →
    ∀ e ∈ (plug.tres.resolve reg root scope t).2, PosAt K reg e
  identity : ∀ e ∈ plug.identityErrs reg, PosAt K reg e
  typedefs : ∀ e ∈ plug.typedefErrs reg, PosAt K reg e

/-- The coarse form of the assumption: positions of the plugged layers are statement starts. -/
def PlugPositionsOK (reg : Registry) (plug : Plug) : Prop := PlugPositionsAt (fun _ _ => True) reg plug

/-! ### executable form: the list of all statement starts of the loaded set -/

mutual
/-- A statement and everything below it, in document order. -/
def stmtsOf : Stmt → List Stmt
  | .mk kw ha a f l c subs => Stmt.mk kw ha a f l c subs :: stmtsOfL subs
def stmtsOfL : List Stmt → List Stmt
  | [] => []
  | s :: rest => stmtsOf s ++ stmtsOfL rest
end

/-- All statement starts of the loaded set. -/
def allPositions (reg : Registry) : List (String × Nat × Nat) :=
  reg.mods.flatMap fun m => (stmtsOf m.stmt).map fun s => (s.file, s.line, s.col)

/-- Executable form of `PosOK`. -/
def posOKb (reg : Registry) (e : Err) : Bool :=
  (e.file == "" && e.line == 0) || (allPositions reg).contains (e.file, e.line, e.col)

end Resolver

/-! ### the AST builder -/

namespace Ast
open Goyang.Model.Ast Goyang.Spec.Ast

/-- `s` is `top` or one of its transitive substatements. -/
inductive Within : Stmt → Stmt → Prop
  | top (t : Stmt) : Within t t
  | sub {p c t : Stmt} : Within p t → c ∈ p.subs → Within c t

/-- The node type the builder picks for a statement (by the spelling of its keyword). -/
def nodeType (tbl : Schema) (s : Stmt) : Option TypeDef := (typeFor tbl s.kw).bind (tbl.types[·]?)

/-- `f` is a substatement field that statement `c` must have: tagged `required`, or
`required=KIND` with `KIND` the keyword of `c`. -/
def mandatoryFor (tbl : Schema) (c : Stmt) (f : Field) : Bool :=
  f.kind.isSub && (f.required || f.reqKinds.any (fun k => tbl.kwName k == some c.kw))

/-- `f` is a substatement field that is mandatory for some other keyword than that of `c`. -/
def foreignFor (tbl : Schema) (c : Stmt) (f : Field) : Bool :=
  f.kind.isSub && f.reqKinds.any (fun k => tbl.kwName k != some c.kw)

/-- Which statement `c` of the tree `top` an error of class `cls` is about:
 * `unknownStmt`: `c` itself has a keyword for which there is no node type;
 * `unknownField` / `noExt`: `c` is a substatement of a statement `p` of the tree in whose context
   its keyword is not known (without / with a prefix; with a prefix only when `p`'s node type has
   no extension list), or `c` holds a substatement that is mandatory for another keyword only;
 * `missing`: `c` lacks a substatement that is mandatory for it. -/
inductive Blames (tbl : Schema) (top : Stmt) : ErrClass → Stmt → Prop
  | unknownStmt {c : Stmt} : Within c top → typeFor tbl c.kw = none → Blames tbl top .unknownStmt c
  | unknownField {p c : Stmt} {T : TypeDef} : Within p top → c ∈ p.subs → nodeType tbl p = some T →
      knownIn tbl T c.kw = false → prefixed c.kw = false → Blames tbl top .unknownField c
  | noExt {p c : Stmt} {T : TypeDef} : Within p top → c ∈ p.subs → nodeType tbl p = some T →
      knownIn tbl T c.kw = false → prefixed c.kw = true → T.hasKind .ext = false → Blames tbl top .noExt c
  | foreign {c : Stmt} {T : TypeDef} {f : Field} : Within c top → nodeType tbl c = some T → f ∈ T.fields →
      foreignFor tbl c f = true → subsOf tbl f c.subs ≠ [] → Blames tbl top .unknownField c
  | missing {c : Stmt} {T : TypeDef} {f : Field} : Within c top → nodeType tbl c = some T → f ∈ T.fields →
      mandatoryFor tbl c f = true → subsOf tbl f c.subs = [] → Blames tbl top .missing c

end Ast

end Goyang.Spec.Positions
