import Goyang.Spec.Positions
/-
Specification for the semantic half of property C16, second part: WHICH statement the errors of
the resolver's own stages name (the classes `Goyang.Spec.Positions.Names` leaves unconstrained).
Read off the Go code (`Entry.add`, `Entry.merge`, `Entry.Augment`, `ToEntry` of a deviation,
`Entry.ApplyDeviate`) as transliterated in Model/Entry.lean, Model/ToEntry.lean, Model/Process.lean:

 * `duplicate-key`  (Go: `e.add(key, value)`, message `Source(e.Node): duplicate key from …`):
   the PARENT statement, i.e. the statement under which a data definition substatement could
   not be added because a child of that name already exists (a substatement `c` whose keyword is
   one `ToEntry` converts below a statement with the parent's keyword: `fieldOrder`);
 * `duplicate-node` (Go: `e.merge(…, oe)`, message `Source(oe.Node): duplicate node …`): the statement
   whose children were being merged in: the `grouping` a `uses` refers to, the `augment`
   statement, or the `module` / `submodule` statement of an included submodule (for a registry
   that holds something else than modules: its top statement);
 * `augment-not-found`: the `augment` statement (a direct substatement of a module / submodule
   statement) whose target was not found (or cannot take children);
 * `deviate-unknown-kind` (positioned form): the `deviation` statement that holds a `deviate`
   substatement whose argument is not one of not-supported / add / replace / delete;
 * the positioned errors of the deviation stage (`devStageClasses`): the top statement of the
   deviating (sub)module, which holds a `deviation` statement with a `deviate` substatement of
   the kind the class belongs to (`devKindOf`: add / not-supported / delete).
-/
namespace Goyang.Spec.Positions
open Goyang.Model

/-- Keywords whose substatements `ToEntry` adds to the parent's `Dir` under their argument. -/
def keyKws : List String :=
  ["anydata", "anyxml", "case", "choice", "container", "leaf", "leaf-list", "list", "notification", "rpc", "action"]

/-- The classes of the errors the deviation stage positions at the deviating module's statement. -/
def devStageClasses : List String :=
  ["deviate-add-many-defaults", "deviate-add-default-exists", "deviate-no-parent", "deviate-delete-default-leaflist",
   "deviate-delete-default-missing", "deviate-delete-default-mismatch", "deviate-already-removed"]

/-- `s` is the top statement of a loaded module or submodule. -/
def TopOf (reg : Registry) (s : Stmt) : Prop := ∃ m ∈ reg.mods, s = m.stmt

/-- The keyword is `module` or `submodule`. -/
def IsModKw (kw : String) : Prop := kw = "module" ∨ kw = "submodule"

/-- `s` is an `augment` statement standing directly below a `module` / `submodule` statement of a
loaded module (the only augments `ToEntry` collects for `Entry.Augment`). -/
def ModAugment (reg : Registry) (s : Stmt) : Prop :=
  s.kw = "augment" ∧ ∃ p, StmtOf reg p ∧ IsModKw p.kw ∧ s ∈ p.subs

/-- The kind of `deviate` statement (its argument) that an error class of the deviation stage comes
from: a second default / an existing default under `add`; no parent / already removed under
`not-supported`; the default errors of `delete`. -/
def devKindOf (cls : String) : String :=
  if cls = "deviate-add-many-defaults" ∨ cls = "deviate-add-default-exists" then "add"
  else if cls = "deviate-no-parent" ∨ cls = "deviate-already-removed" then "not-supported"
  else "delete"

/-- Which statement the error classes of the resolver's own stages name. -/
def Who (reg : Registry) (cls : String) (s : Stmt) : Prop :=
  (cls = "duplicate-key" → ∃ c ∈ s.subs, c.kw ∈ keyKws ∧ c.kw ∈ fieldOrder s.kw) ∧
  (cls = "duplicate-node" → s.kw = "grouping" ∨ ModAugment reg s ∨ IsModKw s.kw ∨ TopOf reg s) ∧
  (cls = "augment-not-found" → ModAugment reg s) ∧
  (cls = "deviate-unknown-kind" → s.kw = "deviation" ∧ ∃ dv ∈ s.subs, dv.kw = "deviate" ∧ deviateKinds.contains dv.arg = false) ∧
  (cls ∈ devStageClasses → TopOf reg s ∧
    ∃ dv ∈ s.subs, dv.kw = "deviation" ∧ ∃ ds ∈ dv.subs, ds.kw = "deviate" ∧ ds.arg = devKindOf cls)

/-- The classes `Who` says something about. -/
def whoClasses : List String :=
  ["duplicate-key", "duplicate-node", "augment-not-found", "deviate-unknown-kind"] ++ devStageClasses

/-- Both readings together: what `Names` says about the entry / type layer classes and what `Who`
says about the classes of the resolver's own stages. -/
def NamesW (reg : Registry) (cls : String) (s : Stmt) : Prop := Names cls s ∧ Who reg cls s

/-- `Who` constrains nothing outside `whoClasses`. -/
theorem who_free (reg : Registry) {cls : String} (s : Stmt) (h : cls ∉ whoClasses) : Who reg cls s := by
  simp only [whoClasses, List.mem_append, List.mem_cons, List.not_mem_nil, or_false, not_or] at h
  obtain ⟨⟨h1, h2, h3, h4⟩, h5⟩ := h
  exact ⟨fun e => absurd e h1, fun e => absurd e h2, fun e => absurd e h3, fun e => absurd e h4,
    fun e => absurd e h5⟩

/-- `Who` with one more condition `P` on the statement an `augment-not-found` error names (used with
"is the source statement of an augment that the augment loop and all retry rounds left pending"). -/
def WhoP (P : Stmt → Prop) (reg : Registry) (cls : String) (s : Stmt) : Prop :=
  Who reg cls s ∧ (cls = "augment-not-found" → P s)

def NamesWP (P : Stmt → Prop) (reg : Registry) (cls : String) (s : Stmt) : Prop := Names cls s ∧ WhoP P reg cls s

theorem who_freeP (P : Stmt → Prop) (reg : Registry) {cls : String} (s : Stmt) (h : cls ∉ whoClasses) :
    WhoP P reg cls s :=
  ⟨who_free reg s h, fun e => absurd (e ▸ (by decide : "augment-not-found" ∈ whoClasses)) h⟩

theorem NamesWP.toW {P : Stmt → Prop} {reg : Registry} {cls : String} {s : Stmt} (h : NamesWP P reg cls s) :
    NamesW reg cls s := ⟨h.1, h.2.1⟩

end Goyang.Spec.Positions
