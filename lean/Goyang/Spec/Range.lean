import Goyang.Model.Number
import Goyang.Spec.Number
/-
Specification for C10 (range and length restrictions): interval-set semantics over ℤ.

A range list at a fixed scale (integers: scale 0; decimal64: fraction-digits f) denotes a set of
*scaled integers* (mantissas).  Nothing here looks at how the Go code sorts, merges or walks:
the denotation is a union of closed intervals, "sorted, disjoint, coalesced" is a shape
predicate, subset and equality are extensional; the executable versions decide them by testing
membership on the finitely many *critical points* (every bound and its two neighbours), which
is a different method from the merge-walk of the implementation.

The reading of the restriction *text* (`read`) is the grammar of RFC 7950 §14 `range-arg` /
`length-arg` (`part *("|" part)`, `part = bound [".." bound]`, `bound = min / max / literal`,
optional white space around every bound) with the two liberalities of the Go code that DESIGN
7.10 decided to model rather than flag: white space is what `strings.TrimSpace` trims, and the
literal syntax is Go's documented base-0 integer syntax resp. its decimal64 syntax (`lit`; that
single literals are read correctly is property C15, not C10 — the functions `readBound` … `read`
take the literal reader as a parameter).
-/
namespace Goyang.Spec.Range

abbrev Bytes := List UInt8

/-- A closed interval `[lo, hi]` of scaled integers. -/
abbrev Iv := Int × Int

/-! ### Denotation -/

/-- `x ∈ ⟦rs⟧` -/
def Mem (x : Int) (rs : List Iv) : Prop := ∃ r ∈ rs, r.1 ≤ x ∧ x ≤ r.2

/-- `⟦a⟧ ⊆ ⟦b⟧` -/
def Within (a b : List Iv) : Prop := ∀ x, Mem x a → Mem x b

/-- `⟦a⟧ = ⟦b⟧` -/
def SetEq (a b : List Iv) : Prop := ∀ x, Mem x a ↔ Mem x b

/-- Sorted ascending, pairwise disjoint and coalesced: every part is non-empty and between two
consecutive parts at least one integer is missing (so no two parts overlap or touch). -/
def SDC : List Iv → Prop
  | [] => True
  | [r] => r.1 ≤ r.2
  | r :: s :: rest => r.1 ≤ r.2 ∧ r.2 + 1 < s.1 ∧ SDC (s :: rest)

/-- `m` is the least element of `⟦p⟧`. -/
def IsLeast (p : List Iv) (m : Int) : Prop := Mem m p ∧ ∀ x, Mem x p → m ≤ x

/-- `m` is the greatest element of `⟦p⟧`. -/
def IsGreatest (p : List Iv) (m : Int) : Prop := Mem m p ∧ ∀ x, Mem x p → x ≤ m

/-! ### Executable versions (used by the driver's `spec.*` ops) -/

def memB (x : Int) (rs : List Iv) : Bool := rs.any fun r => decide (r.1 ≤ x) && decide (x ≤ r.2)

def sdcB : List Iv → Bool
  | [] => true
  | [r] => decide (r.1 ≤ r.2)
  | r :: s :: rest => decide (r.1 ≤ r.2) && decide (r.2 + 1 < s.1) && sdcB (s :: rest)

/-- Every bound of `rs` and its two neighbours. Two finite unions of intervals that agree on the
critical points of both agree everywhere. -/
def critical (rs : List Iv) : List Int :=
  rs.flatMap fun r => [r.1 - 1, r.1, r.1 + 1, r.2 - 1, r.2, r.2 + 1]

def subsetB (a b : List Iv) : Bool :=
  (critical a ++ critical b).all fun x => !memB x a || memB x b

def setEqB (a b : List Iv) : Bool := subsetB a b && subsetB b a

/-- least element of `⟦p⟧` (none for the empty set) -/
def lowest : List Iv → Option Int
  | [] => none
  | r :: rs =>
    if r.1 ≤ r.2 then
      match lowest rs with
      | none => some r.1
      | some m => some (if r.1 < m then r.1 else m)
    else lowest rs

/-- greatest element of `⟦p⟧` (none for the empty set) -/
def highest : List Iv → Option Int
  | [] => none
  | r :: rs =>
    if r.1 ≤ r.2 then
      match highest rs with
      | none => some r.2
      | some m => some (if m < r.2 then r.2 else m)
    else highest rs

/-! ### The written restriction -/

/-- A written boundary. -/
inductive Bound where
  | min
  | max
  | lit (m : Int)
  deriving DecidableEq, Repr

/-- A written part `lo .. hi` (a single value `v` is `v .. v`). -/
abbrev Part := Bound × Bound

/-- The value a boundary stands for: `min`/`max` are the bounds of the parent's set `p`
(undefined when the parent's set is empty / there is no parent). -/
def Bound.eval (p : List Iv) : Bound → Option Int
  | .min => lowest p
  | .max => highest p
  | .lit m => some m

def Part.eval (p : List Iv) (w : Part) : Option Iv :=
  match w.1.eval p, w.2.eval p with
  | some a, some b => some (a, b)
  | _, _ => none

/-- The written parts as intervals (none when `min`/`max` cannot be resolved). -/
def writtenIvs (p : List Iv) : List Part → Option (List Iv)
  | [] => some []
  | w :: ws =>
    match Part.eval p w, writtenIvs p ws with
    | some i, some is => some (i :: is)
    | _, _ => none

/-- Every written part has its bounds in order. -/
def ordered (ivs : List Iv) : Bool := ivs.all fun r => decide (r.1 ≤ r.2)

/-! ### Reading the text -/

/-- Split `s` at every non-overlapping occurrence of `sep`, scanning from the left; always at
least one piece.  (`sep` non-empty.)  Fuel = length of the text. -/
def splitOnAux (sep : Bytes) : Nat → Bytes → Bytes → List Bytes
  | 0, _, acc => [acc.reverse]
  | _, [], acc => [acc.reverse]
  | fuel + 1, c :: rest, acc =>
    if sep.isPrefixOf (c :: rest) then acc.reverse :: splitOnAux sep fuel ((c :: rest).drop sep.length) []
    else splitOnAux sep fuel rest (c :: acc)

def splitOn (sep s : Bytes) : List Bytes := splitOnAux sep (s.length + 1) s []

/-- White space around a boundary: what `strings.TrimSpace` removes (shared re-implementation in
`Model.Number`, trusted glue). -/
def trim (s : Bytes) : Bytes := Goyang.Model.Number.trimSpace s

/-- The literal syntax: Go's `ParseInt` (base-0 integer syntax) for integer and length restrictions,
`ParseDecimal` at `f` fraction digits for decimal64; the value is the signed mantissa at scale `f`.
`none` = not a literal. (That these read single literals correctly is property C15.) -/
def lit (dec : Bool) (f : Nat) (t : Bytes) : Option Int :=
  match (if dec then Goyang.Model.Number.parseDecimal t f else Goyang.Model.Number.parseInt t) with
  | .ok n => some (Goyang.Spec.Number.num n)
  | .error _ => none

def kwMin : Bytes := [109, 105, 110]   -- "min"
def kwMax : Bytes := [109, 97, 120]    -- "max"
def sepBar : Bytes := [124]            -- "|"
def sepDots : Bytes := [46, 46]        -- ".."

/-- One boundary: a keyword or a literal (`lit` reads a literal to its scaled integer). -/
def readBound (lit : Bytes → Option Int) (t : Bytes) : Option Bound :=
  let t := trim t
  if t = kwMin then some .min
  else if t = kwMax then some .max
  else (lit t).map .lit

def readPart (lit : Bytes → Option Int) (p : Bytes) : Option Part :=
  match splitOn sepDots p with
  | [a] => (readBound lit a).map fun b => (b, b)
  | [a, b] =>
    match readBound lit a, readBound lit b with
    | some x, some y => some (x, y)
    | _, _ => none
  | _ => none

def readParts (lit : Bytes → Option Int) : List Bytes → Option (List Part)
  | [] => some []
  | p :: ps =>
    match readPart lit p, readParts lit ps with
    | some w, some ws => some (w :: ws)
    | _, _ => none

/-- The restriction text as a list of written parts; `none` = syntactically invalid. -/
def read (lit : Bytes → Option Int) (s : Bytes) : Option (List Part) :=
  readParts lit (splitOn sepBar s)

/-! ### The property, as one decidable judgement on (input, observed output)

`accepts p w` says whether the restriction `w` under parent set `p` (`none` = no parent, the
top of a chain parsed through `ParseRangesInt/Decimal`) must be accepted; `conforms` says whether
an observed outcome (`none` = an error, `some out` = the returned list) is what the property
demands. -/
def mustAccept (p : Option (List Iv)) (w : List Part) : Option (List Iv) :=
  match writtenIvs (p.getD []) w with
  | none => none
  | some ivs =>
    if ordered ivs && (match p with | none => true | some p => subsetB ivs p) then some ivs else none

def conforms (p : Option (List Iv)) (w : Option (List Part)) (out : Option (List Iv)) : Bool :=
  match w with
  | none => out.isNone
  | some w =>
    match mustAccept p w, out with
    | none, none => true
    | some ivs, some o => sdcB o && setEqB o ivs
    | _, _ => false

end Goyang.Spec.Range
