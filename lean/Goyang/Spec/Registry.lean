import Goyang.Spec.Date
/-
C13 (a), independent reading: which loaded module a name denotes.

A load is seen only through its header: kind (module / submodule), name, and the latest of its
revision dates (`rev = ""` when it has no revision statement).  Everything here is a function of
the *collection* of headers, written without any notion of an incrementally updated table:
* a header is rejected exactly when an equal header was loaded before it — so the rejected
  headers, as a collection, are "every occurrence but one of each distinct header";
* `name@date` denotes the loaded header with that name and date;
* the bare `name` denotes, among the loaded headers with that name, the one with the latest
  date, a header without revision ranking below every date.
Dates are compared as dates (year, month, day as numbers), not as strings.
A header whose name contains `@` — the character that separates name and revision-date in
`name@date`, never part of a YANG identifier — is never loaded: it is rejected wherever it
stands, and names are looked up among the remaining (`loadable`) headers (`outcomesG`).
Core Lean only.
-/
namespace Goyang.Spec.Registry

structure Header where
  isSub : Bool
  name : String
  rev : String
  deriving DecidableEq, Repr, Inhabited

/-- The revisions the property speaks about: none, or a date. -/
def WellFormedRev (r : String) : Prop := r = "" ∨ (parseDate r.toList).isSome

/-- `a` is not later than `b`: no revision ranks below every date. -/
def revLe (a b : String) : Bool :=
  a == "" ||
  match parseDate a.toList, parseDate b.toList with
  | some x, some y => x.le y
  | _, _ => false

/-- The latest of some headers: the one no other is later than. -/
def latest (hs : List Header) : Option Header := hs.find? fun h => hs.all fun g => revLe g.rev h.rev

/-- The header that `key` denotes among the loaded modules (`sub = false`) or submodules. -/
def denotes (hs : List Header) (sub : Bool) (key : String) : Option Header :=
  let same := hs.filter (·.isSub == sub)
  match same.find? (fun h => h.rev ≠ "" ∧ h.name ++ "@" ++ h.rev = key) with
  | some h => some h
  | none => latest (same.filter (·.name = key))

/-- What an import (`sub = false`) or include of `name` denotes, with or without a
revision-date.  `none` in the result: nothing loaded has that name; `noClaim`: a date was given
but that revision is not loaded, about which the property says nothing. -/
inductive Resolved where
  | is (h : Option Header)
  | noClaim
  deriving DecidableEq, Repr

def resolve (hs : List Header) (sub : Bool) (name : String) (date : Option String) : Resolved :=
  match date with
  | none => .is (denotes hs sub name)
  | some d =>
    match hs.find? (fun h => h.isSub = sub ∧ h.name = name ∧ h.rev = d ∧ d ≠ "") with
    | some h => .is (some h)
    | none => .noClaim

/-- Per load, in load order: is it rejected?  Exactly when an equal header is among those loaded
before it (`before` = the headers loaded earlier). -/
def outcomesAfter (before : List Header) : List Header → List Bool
  | [] => []
  | h :: rest => before.contains h :: outcomesAfter (before ++ [h]) rest

def outcomes (hs : List Header) : List Bool := outcomesAfter [] hs

/-- The name can be a module name: no `@`. -/
def nameOk (h : Header) : Bool := !h.name.toList.contains '@'

/-- The headers that can be loaded at all. -/
def loadable (hs : List Header) : List Header := hs.filter nameOk

inductive Outcome where
  | ok
  /-- the same kind, name and latest revision was loaded before -/
  | dup
  /-- the name contains `@` -/
  | badName
  deriving DecidableEq, Repr

/-- Per load, in load order, for arbitrary names: a name with `@` is rejected and leaves no trace;
otherwise the load is rejected exactly when an equal header is among those loaded before. -/
def outcomesAfterG (before : List Header) : List Header → List Outcome
  | [] => []
  | h :: rest =>
    if nameOk h then (if before.contains h then .dup else .ok) :: outcomesAfterG (before ++ [h]) rest
    else .badName :: outcomesAfterG before rest

def outcomesG (hs : List Header) : List Outcome := outcomesAfterG [] hs

/-- One source text with several modules, after the headers `before` were loaded: the text is
accepted when every one of its headers would be, one after the other; otherwise it is rejected
for the first header that would not (and nothing of the text is loaded). -/
def textOutcome (before text : List Header) : Outcome :=
  ((outcomesAfterG before text).find? (· != .ok)).getD .ok

/-- Text by text; `before` are the headers of the texts accepted so far. -/
def textsOutcomesAfter (before : List Header) : List (List Header) → List Outcome
  | [] => []
  | t :: rest =>
    textOutcome before t :: textsOutcomesAfter (if textOutcome before t = .ok then before ++ t else before) rest

/-- The headers loaded by the accepted texts. -/
def textsAccepted (before : List Header) : List (List Header) → List Header
  | [] => before
  | t :: rest => textsAccepted (if textOutcome before t = .ok then before ++ t else before) rest

/-- How many loads of header `h` are rejected: all but one. -/
def rejectedCount (hs : List Header) (h : Header) : Nat := hs.count h - 1

end Goyang.Spec.Registry
