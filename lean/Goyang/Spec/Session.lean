import Goyang.Model.Session
/-
Property C18, the reference the property compares every history with: the batch run of the good
texts of the history on a fresh set, and what "leaves no trace" means.

The property is a relation between runs of the same machine (a history against its batch
counterpart), so the reference is written with the machine's own `load` and `process`; what is
independent of the machine is *which* texts count as good — read off the answers the caller saw
(`Parse` returned nil), not off the state — and the notion of indistinguishable states.
-/
namespace Goyang.Spec.Session
open Goyang.Model Goyang.Model.Session

/-- The batch run: offer the sources, in order. -/
def loads (srcs : List Src) : List Op := srcs.map .load

/-- The texts of a history whose `load` the caller saw accepted, in order. -/
def acceptedTexts : List Op → List Out → List Src
  | .load src :: ops, .accepted :: outs => src :: acceptedTexts ops outs
  | _ :: ops, _ :: outs => acceptedTexts ops outs
  | _, _ => []

/-- The good texts of a history run on a fresh set. -/
def goodTexts (plug : Registry → Plug) (opts : Opts) (h : List Op) : List Src :=
  acceptedTexts h (run plug opts h)

/-- What the batch run of `texts` on a fresh set answers to its final `process`. -/
def batch (plug : Registry → Plug) (opts : Opts) (texts : List Src) : Option Out :=
  (run plug opts (loads texts ++ [.process])).getLast?

/-- Two states that no later history of loads, processing runs and reads can tell apart. -/
def Indistinguishable (plug : Registry → Plug) (s t : Session) : Prop :=
  ∀ h : List Op, (runFrom plug s h).2 = (runFrom plug t h).2

end Goyang.Spec.Session
