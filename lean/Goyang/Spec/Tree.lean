import Goyang.Model.Process
/-
C04 — what a proper schema tree is.

The model's trees are pure rose trees (`Entry.mk d dir inp out`): the `Dir` children in insertion
order, and the rpc input and output as lists of at most one element.  Parent pointers and object
identity do not exist in a pure value; their Go counterparts (`child.Parent == parent`, every
`*Entry` reached by exactly one path) are what the Go-side pointer walk of `corr-c04` checks.
What is left of "each child is filed under its own name … reachable by exactly one path" on a
pure tree is that the names of the children of every node are pairwise different (the model
looks children up by name, Go by map key).

Every predicate is "this local condition holds at every node of the tree", the nodes being the
root, everything below `Dir`, and everything below rpc input and output.  All of them are
decidable (they are Boolean functions).
-/
namespace Goyang.Spec.Tree
open Goyang.Model

mutual
/-- `p` holds at every node: the node itself, the `Dir` subtrees, the rpc input and output subtrees. -/
def everyNode (p : Entry → Bool) : Entry → Bool
  | .mk d c i o => p (.mk d c i o) && everyNodeL p c && everyNodeL p i && everyNodeL p o
def everyNodeL (p : Entry → Bool) : List Entry → Bool
  | [] => true
  | e :: es => everyNode p e && everyNodeL p es
end

/-! ### no recorded error anywhere -/

def noErrorsHere (e : Entry) : Bool := e.d.errors.isEmpty

/-- The `errors` field of every node, rpc input and output included, is empty. -/
def NoErrors (e : Entry) : Prop := everyNode noErrorsHere e = true

/-! ### children filed under their own, pairwise different names -/

/-- The names of the `Dir` children are pairwise different, and there is at most one rpc input
and one rpc output. -/
def keysUniqueHere (e : Entry) : Bool :=
  decide (e.dir.map (·.name)).Nodup && decide (e.inp.length ≤ 1) && decide (e.out.length ≤ 1)

def KeysUnique (e : Entry) : Prop := everyNode keysUniqueHere e = true

/-! ### kind, child map and list attributes agree -/

/-- * a node is of leaf kind exactly when it has no child map (`Dir == nil`); so every other kind
    has one;
  * only leaf-kind nodes (leaf-lists) and directory-kind nodes (lists) carry list attributes;
  * every `Dir` child of a choice is a case. -/
def kindsConsistentHere (e : Entry) : Bool :=
  ((e.d.kind == .leaf) == !e.d.hasDir) &&
  (!e.d.listAttr.isSome || e.d.kind == .leaf || e.d.kind == .directory) &&
  (!(e.d.kind == .choice) || e.dir.all (·.d.kind == .case_))

def KindsConsistent (e : Entry) : Prop := everyNode kindsConsistentHere e = true

/-- A leaf-kind node whose source statement has a `type` substatement (the AST builder rejects a
leaf or leaf-list without one: `yang:"type,required"`) has a resolved type.  This one is relative
to the type resolver plugged into the entry layer: see `TypeResTotal` below. -/
def typePresentHere (e : Entry) : Bool :=
  !(e.d.kind == .leaf && (e.d.node.one? "type").isSome) || e.d.type.isSome

def TypesPresent (e : Entry) : Prop := everyNode typePresentHere e = true

/-- The assumption under which `TypesPresent` can be proved of the entry layer: the plugged-in
type resolver reports an error whenever it does not produce a type. -/
def TypeResTotal (t : TypeRes) : Prop :=
  ∀ reg root scope s, (t.resolve reg root scope s).2 = [] → (t.resolve reg root scope s).1.isSome = true

/-! ### the proper-tree predicate -/

/-- A proper tree (as far as a pure value can say it). -/
def WFTree (e : Entry) : Prop := KeysUnique e ∧ KindsConsistent e

instance (e : Entry) : Decidable (NoErrors e) := by unfold NoErrors; infer_instance
instance (e : Entry) : Decidable (KeysUnique e) := by unfold KeysUnique; infer_instance
instance (e : Entry) : Decidable (KindsConsistent e) := by unfold KindsConsistent; infer_instance
instance (e : Entry) : Decidable (TypesPresent e) := by unfold TypesPresent; infer_instance
instance (e : Entry) : Decidable (WFTree e) := by unfold WFTree; infer_instance

/-! ### forests, pending augments -/

/-- Every tree of the forest satisfies `P`. -/
def ForestAll (P : Entry → Prop) (f : Forest) : Prop := ∀ t ∈ f.trees, P t.2

instance (P : Entry → Prop) [DecidablePred P] (f : Forest) : Decidable (ForestAll P f) := by
  unfold ForestAll; infer_instance

/-- No augment is left unapplied: the pending list (`Entry.Augments`) of every tree is empty. -/
def NoPending (s : PState) : Prop := ∀ p ∈ s.pending, p.2 = []

/-- The error-free part of a choice has only cases below it: what `FixChoice` establishes (it
skips a choice node that carries an error of its own). -/
def choiceCasesHere (e : Entry) : Bool :=
  !(e.d.kind == .choice && e.d.errors.isEmpty) || e.dir.all (·.d.kind == .case_)

def ChoiceCases (e : Entry) : Prop := everyNode choiceCasesHere e = true

instance (e : Entry) : Decidable (ChoiceCases e) := by unfold ChoiceCases; infer_instance

end Goyang.Spec.Tree
