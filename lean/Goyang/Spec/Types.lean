import Goyang.Model.Ctx
/-
Specification for property C09: what a type reference denotes (`bindType`, lexical binding as in
RFC 7950 sections 5.5 and 7.3) and what a derived type inherits along its derivation chain
(`inherit`).  Written from the property text, not from the Go algorithm: binding is "the nearest
enclosing scope that declares the name", module level is a *set* of (sub)modules, inheritance is
"first layer that says something" over the list of layers of the chain.

A schema that RFC 7950 forbids in a way that makes the denotation ambiguous (two typedefs of one
name in one scope or in one module and its submodules, two imports with one prefix), or that uses
what the claim excludes (re-listing enum / bit members in a derived type, member types or
fraction-digits given twice along a chain), gets `noClaim`.
Core Lean only; executable.
-/
namespace Goyang.Spec.Types
open Goyang.Model

/-- RFC 7950 section 4.2.4: the built-in types. -/
def builtinNames : List String :=
  ["binary", "bits", "boolean", "decimal64", "empty", "enumeration", "identityref", "instance-identifier",
   "int8", "int16", "int32", "int64", "leafref", "string", "uint8", "uint16", "uint32", "uint64", "union"]

/-- Statements that may contain typedefs (RFC 7950 section 7.3: module, submodule, container, list,
grouping, rpc, action, input, output, notification). -/
def scopeKinds : List String :=
  ["module", "submodule", "container", "list", "grouping", "rpc", "action", "input", "output", "notification"]

/-- The typedefs called `name` declared directly in statement `n`. -/
def declared (n : Stmt) (name : String) : List Stmt :=
  if scopeKinds.contains n.kw then n.subs.filter fun s => s.kw == "typedef" && s.arg == name else []

/-- The submodules a module or submodule includes, as the loaded set resolves the names. -/
def includesOf (reg : Registry) (m : Mod) : List Mod := m.includes.filterMap (reg.findModule true)

def addNew (acc : List Mod) (ms : List Mod) : List Mod :=
  ms.foldl (fun acc m => if acc.any (·.seq == m.seq) then acc else acc ++ [m]) acc

/-- `ms` together with everything reachable through include statements (`n` rounds). -/
def includeClosure (reg : Registry) : Nat → List Mod → List Mod
  | 0, ms => ms
  | n + 1, ms => includeClosure reg n (addNew ms (ms.flatMap (includesOf reg)))

/-- A module with its submodules. -/
def withSubmodules (reg : Registry) (ms : List Mod) : List Mod :=
  includeClosure reg reg.mods.length (addNew [] ms)

/-- The module a reference in `root` belongs to, as a set of module and submodules: `root` itself,
the module it belongs to, and all their submodules. -/
def unitOf (reg : Registry) (root : Mod) : List Mod :=
  withSubmodules reg (root :: (match root.belongsTo? with
    | some b => (reg.getModule b).toList
    | none => []))

/-- What a type name denotes. -/
inductive Binding where
  | builtin (name : String)
  /-- the typedef statement, the (sub)module it stands in, its enclosing statements (nearest first) -/
  | typedef (root : Mod) (td : Stmt) (scope : List Stmt)
  | unbound
  | ambiguous
  deriving Inhabited

def pick (cands : List (Mod × Stmt × List Stmt)) : Binding :=
  match cands with
  | [] => .unbound
  | [(m, td, sc)] => .typedef m td sc
  | _ => .ambiguous

/-- Top-level typedefs called `name` of the given (sub)modules. -/
def topLevel (ms : List Mod) (name : String) : List (Mod × Stmt × List Stmt) :=
  ms.flatMap fun m => (declared m.stmt name).map fun td => (m, td, [m.stmt])

/-- The nearest enclosing scope that declares `name`: `scope` lists the enclosing statements of the
reference, nearest first; the result is that scope followed by its own enclosing statements. -/
def nearestDeclaring (name : String) : List Stmt → Option (List Stmt)
  | [] => none
  | n :: up => if (declared n name).isEmpty then nearestDeclaring name up else some (n :: up)

/-- Lexical binding of the type name `name` written in module `root` inside the statements `scope`
(nearest first, ending with the module statement itself). -/
def bindType (reg : Registry) (root : Mod) (scope : List Stmt) (name : String) : Binding :=
  if builtinNames.contains name then .builtin name else
  let pn := splitPrefix name
  if pn.1 == "" || pn.1 == root.getPrefix then
    match nearestDeclaring pn.2 scope with
    | some (n :: up) => pick ((declared n pn.2).map fun td => (root, td, n :: up))
    | _ => pick (topLevel (unitOf reg root) pn.2)
  else
    match root.imports.filter fun i => i.argOf? "prefix" == some pn.1 with
    | [] => .unbound
    | [i] =>
      match reg.findModule false i with
      | none => .unbound
      | some ext => pick (topLevel (withSubmodules reg [ext]) pn.2)
    | _ => .ambiguous

/-! ### The same, as relations (what the theorems are stated against)

`bindType` above is the executable rendering (it answers `ambiguous` where the relation relates a
reference to more than one typedef). -/

/-- One include statement of `a` names `b`. -/
def Includes (reg : Registry) (a b : Mod) : Prop := b ∈ includesOf reg a

/-- `b` is `a` or a submodule `a` includes, directly or through other submodules. -/
inductive IncludesStar (reg : Registry) : Mod → Mod → Prop
  | refl (a : Mod) : IncludesStar reg a a
  | head {a b c : Mod} : Includes reg a b → IncludesStar reg b c → IncludesStar reg a c

/-- `m` is part of the module a reference standing in `root` belongs to: `root` itself and its
submodules, the module `root` belongs to and that module's submodules. -/
def InUnit (reg : Registry) (root m : Mod) : Prop :=
  IncludesStar reg root m ∨
  ∃ b o, root.belongsTo? = some b ∧ reg.getModule b = some o ∧ IncludesStar reg o m

/-- Is the name unprefixed or prefixed with the referencing module's own prefix? -/
def isLocalRef (root : Mod) (name : String) : Bool :=
  (splitPrefix name).1 == "" || (splitPrefix name).1 == root.getPrefix

/-- The name without its prefix. -/
def baseName (name : String) : String := (splitPrefix name).2

/-- `Binds reg root scope name m td sc`: the type name `name`, written in module `root` inside the
statements `scope` (nearest first), denotes the typedef statement `td`, which stands in
(sub)module `m` enclosed by `sc`. -/
inductive Binds (reg : Registry) (root : Mod) (scope : List Stmt) (name : String) : Mod → Stmt → List Stmt → Prop
  /-- the nearest enclosing scope that declares the name -/
  | lexical (pre : List Stmt) (n : Stmt) (up : List Stmt) (td : Stmt) :
      builtinNames.contains name = false → isLocalRef root name = true →
      scope = pre ++ n :: up → (∀ x ∈ pre, declared x (baseName name) = []) →
      td ∈ declared n (baseName name) → Binds reg root scope name root td (n :: up)
  /-- else the top level of its module and that module's submodules -/
  | moduleLevel (m : Mod) (td : Stmt) :
      builtinNames.contains name = false → isLocalRef root name = true →
      (∀ x ∈ scope, declared x (baseName name) = []) →
      InUnit reg root m → td ∈ declared m.stmt (baseName name) → Binds reg root scope name m td [m.stmt]
  /-- a foreign prefix: the top level of exactly the module imported under that prefix, its submodules included -/
  | foreign (i : Stmt) (ext m : Mod) (td : Stmt) :
      builtinNames.contains name = false → isLocalRef root name = false →
      i ∈ root.imports → i.argOf? "prefix" = some (splitPrefix name).1 → reg.findModule false i = some ext →
      IncludesStar reg ext m → td ∈ declared m.stmt (baseName name) → Binds reg root scope name m td [m.stmt]

/-- `Resolvable reg root scope t`: the type statement `t` has a finite derivation: it names a
built-in type, or a typedef (as `Binds` says) whose own type statement is resolvable; and so are
all its member types.  A reference to an unknown name or prefix has no derivation, nor has a
cyclic definition (derivations are finite trees). -/
inductive Resolvable (reg : Registry) : Mod → List Stmt → Stmt → Prop
  | builtin {root : Mod} {scope : List Stmt} {t : Stmt} :
      builtinNames.contains t.arg = true →
      (∀ ut ∈ t.all "type", Resolvable reg root (t :: scope) ut) → Resolvable reg root scope t
  | derived {root : Mod} {scope : List Stmt} {t : Stmt} (m : Mod) (td : Stmt) (sc : List Stmt) (tt : Stmt) :
      Binds reg root scope t.arg m td sc → td.one? "type" = some tt →
      Resolvable reg m (td :: sc) tt →
      (∀ ut ∈ t.all "type", Resolvable reg root (t :: scope) ut) → Resolvable reg root scope t

/-! ### Cyclic definitions -/

/-- A type statement in its place: the module it stands in, its enclosing statements, itself. -/
abbrev Site := Mod × List Stmt × Stmt

/-- `Uses reg a b`: resolving the type statement at `a` needs the type statement at `b`: `b` is the
type statement of the typedef `a` names, or one of `a`'s member types. -/
inductive Uses (reg : Registry) : Site → Site → Prop
  | base {root : Mod} {scope : List Stmt} {t : Stmt} (m : Mod) (td : Stmt) (sc : List Stmt) (tt : Stmt) :
      Binds reg root scope t.arg m td sc → td.one? "type" = some tt → Uses reg (root, scope, t) (m, td :: sc, tt)
  | member {root : Mod} {scope : List Stmt} {t : Stmt} (ut : Stmt) :
      ut ∈ t.all "type" → Uses reg (root, scope, t) (root, t :: scope, ut)

/-- One or more `Uses` steps. -/
inductive UsesPlus (reg : Registry) : Site → Site → Prop
  | one {a b : Site} : Uses reg a b → UsesPlus reg a b
  | cons {a b c : Site} : Uses reg a b → UsesPlus reg b c → UsesPlus reg a c

/-- The type statement at `a` is defined in terms of itself, or needs one that is. -/
def Cyclic (reg : Registry) (a : Site) : Prop :=
  (∃ b, (b = a ∨ UsesPlus reg a b) ∧ UsesPlus reg b b)

/-- No name denotes two typedefs (RFC 7950: a typedef name is declared once per scope, once per
module and its submodules; prefixes of imports are distinct).
NOTE: as written this quantifies over every conceivable site, made-up enclosing statements
included, and holds of NO registry (`Goyang.Props.C09.unambiguous_false`).  The usable form is
`Goyang.Lemmas.TypesDefs.UnambiguousBelow reg site` (only the sites met while resolving `site`). -/
def Unambiguous (reg : Registry) : Prop :=
  ∀ root scope name m td sc m' td' sc', Binds reg root scope name m td sc → Binds reg root scope name m' td' sc' →
    m = m' ∧ td = td' ∧ sc = sc'

/-- One statement of a derivation chain. -/
inductive Link where
  /-- a `type` statement, with the module it stands in and its enclosing statements -/
  | ty (root : Mod) (scope : List Stmt) (t : Stmt)
  /-- the `typedef` statement it names -/
  | td (d : Stmt)
  deriving Repr, Inhabited

/-- `DerivesFrom reg root scope t kind chain`: the derivation chain of `t`: the statements from `t`
outward to the type statement naming the built-in `kind`, nearest first (a `type` statement, the
`typedef` it names, that typedef's `type` statement, …). -/
inductive DerivesFrom (reg : Registry) : Mod → List Stmt → Stmt → String → List Link → Prop
  | builtin {root : Mod} {scope : List Stmt} {t : Stmt} :
      builtinNames.contains t.arg = true → DerivesFrom reg root scope t t.arg [.ty root scope t]
  | derived {root : Mod} {scope : List Stmt} {t : Stmt} (m : Mod) (td : Stmt) (sc : List Stmt) (tt : Stmt)
      (kind : String) (chain : List Link) :
      Binds reg root scope t.arg m td sc → td.one? "type" = some tt →
      DerivesFrom reg m (td :: sc) tt kind chain →
      DerivesFrom reg root scope t kind (.ty root scope t :: .td td :: chain)

/-! ### Nearest definition wins, patterns accumulate — over a chain of statements -/

/-- Units: those of the nearest typedef that states them. -/
def chainUnits (chain : List Link) : Option String :=
  chain.findSome? fun | .td d => d.argOf? "units" | .ty _ _ _ => none

/-- Default: that of the nearest typedef that states one. -/
def chainDefault (chain : List Link) : Option String :=
  chain.findSome? fun | .td d => d.argOf? "default" | .ty _ _ _ => none

/-- Path: that of the nearest type statement that states one. -/
def chainPath (chain : List Link) : Option String :=
  chain.findSome? fun | .ty _ _ t => t.argOf? "path" | .td _ => none

/-- The fraction-digits statement of the nearest type statement that has one. -/
def chainFractionDigits (chain : List Link) : Option Stmt :=
  chain.findSome? fun | .ty _ _ t => t.one? "fraction-digits" | .td _ => none

/-- The enum statements of the nearest type statement that lists any. -/
def chainEnums (chain : List Link) : Option (List Stmt) :=
  chain.findSome? fun | .ty _ _ t => (if (t.all "enum").isEmpty then none else some (t.all "enum")) | .td _ => none

/-- The bit statements of the nearest type statement that lists any. -/
def chainBits (chain : List Link) : Option (List Stmt) :=
  chain.findSome? fun | .ty _ _ t => (if (t.all "bit").isEmpty then none else some (t.all "bit")) | .td _ => none

/-- All patterns of the chain. -/
def chainPatterns (chain : List Link) : List String :=
  chain.flatMap fun | .ty _ _ t => (t.all "pattern").map Stmt.arg | .td _ => []

/-! ## Inheritance -/

/-- The attributes of a resolved type the property speaks about. `patterns` and `members` are sets
(printed sorted, without repetitions). -/
structure SType where
  kind : String
  units : String := ""
  default : Option String := none
  fd : Nat := 0
  patterns : List String := []
  enum : Option (List (String × Int)) := none
  bit : Option (List (String × Int)) := none
  path : String := ""
  members : List SType := []
  deriving Repr, Inhabited

/-- What one statement of a derivation chain (a `type` or a `typedef`) says. -/
structure Layer where
  units : Option String := none
  default : Option String := none
  fd : Option Nat := none
  path : Option String := none
  enum : Option (List (String × Int)) := none
  bit : Option (List (String × Int)) := none
  patterns : List String := []
  members : Option (List SType) := none
  deriving Repr, Inhabited

/-- The type at the head of a derivation chain: the base kind comes from the built-in type at its
end; units, default, fraction-digits, path, enum / bit sets and union members are those of the nearest
layer that states them; patterns accumulate.  `layers` are listed nearest first. -/
def inherit (kind : String) (layers : List Layer) : SType :=
  { kind := kind
    units := (layers.findSome? (·.units)).getD ""
    default := layers.findSome? (·.default)
    fd := (layers.findSome? (·.fd)).getD 0
    path := (layers.findSome? (·.path)).getD ""
    enum := layers.findSome? (·.enum)
    bit := layers.findSome? (·.bit)
    patterns := layers.flatMap (·.patterns)
    members := (layers.findSome? (·.members)).getD [] }

/-- A plain decimal integer with an optional minus sign. -/
def parseIntLit (s : String) : Option Int :=
  match s.toList with
  | '-' :: ds => if !ds.isEmpty && ds.all Char.isDigit then some (-(String.ofList ds).toNat!) else none
  | ds => if !ds.isEmpty && ds.all Char.isDigit then some (String.ofList ds).toNat! else none

/-- RFC 7950 sections 9.6.4.2 / 9.7.4.2: a member without a value gets one more than the highest
value so far (0 for the first).  `none`: not a well-formed member list within `[lo, hi]`. -/
def assignValues (valueKw : String) (lo hi : Int) (members : List Stmt) : Option (List (String × Int)) :=
  (members.foldl (fun (acc : Option (List (String × Int) × Option Int)) m =>
      match acc with
      | none => none
      | some (tab, highest) =>
        let v? : Option Int :=
          match m.argOf? valueKw with
          | some a => parseIntLit a
          | none => some (match highest with | some h => h + 1 | none => 0)
        match v? with
        | none => none
        | some v =>
          if v < lo || v > hi || tab.any (·.1 == m.arg) then none
          else some (tab ++ [(m.arg, v)], some (match highest with | some h => if v > h then v else h | none => v)))
    (some ([], none))).map (·.1)

inductive SRes where
  | ok (t : SType)
  | error
  /-- outside the claim, with the reason -/
  | noClaim (why : String)
  deriving Inhabited

inductive Chain where
  | ok (kind : String) (layers : List Layer)
  | error
  | noClaim (why : String)
  deriving Inhabited

def countSome {α : Type} (l : List (Option α)) : Nat := (l.filter Option.isSome).length

/-- Is the chain inside the claim: enum / bit members, member types and fraction-digits are stated
at most once, enumerations have distinct values. -/
def chainInClaim (layers : List Layer) : Bool :=
  countSome (layers.map (·.enum)) ≤ 1 && countSome (layers.map (·.bit)) ≤ 1 &&
  countSome (layers.map (·.members)) ≤ 1 && countSome (layers.map (·.fd)) ≤ 1 &&
  (layers.all fun l => match l.enum with
    | some tab => (tab.map (·.2)).eraseDups.length == tab.length
    | none => true)

def finish : Chain → SRes
  | .ok k ls => if chainInClaim ls then .ok (inherit k ls) else .noClaim "restated"
  | .error => .error
  | .noClaim w => .noClaim w

/-- Collect member results: any unbound or cyclic member makes the whole reference an error. -/
def collectMembers : List SRes → Option (Except String (List SType))
  | [] => some (.ok [])
  | .error :: _ => none
  | .noClaim w :: rest => (collectMembers rest).map fun _ => .error w
  | .ok t :: rest => (collectMembers rest).map fun r => r.map (t :: ·)

/-- The layer of a `typedef` statement. -/
def typedefLayer (td : Stmt) : Layer :=
  { units := td.argOf? "units", default := td.argOf? "default" }

abbrev Key := Nat × Nat × Nat

/-- The derivation chain of the type statement `t` (in module `root`, enclosed by `scope`): its
layers, nearest first, and the built-in kind at its end.  `visiting` are the type statements whose
chains are being followed (a derivation that comes back to one of them is cyclic). -/
def chainOf (reg : Registry) : Nat → Mod → List Stmt → Stmt → List Key → Chain
  | 0, _, _, _, _ => .noClaim "fuel"
  | fuel + 1, root, scope, t, visiting =>
    let key : Key := (root.seq, t.line, t.col)
    if visiting.contains key then .error else
    let visiting := key :: visiting
    let memberStmts := t.all "type"
    let memberRes := memberStmts.map fun ut => finish (chainOf reg fuel root (t :: scope) ut visiting)
    match collectMembers memberRes with
    | none => .error
    | some members? =>
      let enumStmts := t.all "enum"
      let bitStmts := t.all "bit"
      let enum? := if enumStmts.isEmpty then some none else (assignValues "value" (-2147483648) 2147483647 enumStmts).map some
      let bit? := if bitStmts.isEmpty then some none else (assignValues "position" 0 4294967295 bitStmts).map some
      let fd? : Option (Option Nat) :=
        match t.argOf? "fraction-digits" with
        | none => some none
        | some a => match a.toNat? with
          | some n => if 1 ≤ n && n ≤ 18 then some (some n) else none
          | none => none
      let own? : Except String Layer :=
        match members?, enum?, bit?, fd? with
        | .ok ms, some e, some b, some fd =>
          .ok { fd := fd, path := t.argOf? "path", enum := e, bit := b,
                patterns := (t.all "pattern").map Stmt.arg,
                members := if memberStmts.isEmpty then none else some ms }
        | .error w, _, _, _ => .error w
        | _, none, _, _ => .error "enum-values"
        | _, _, none, _ => .error "bit-positions"
        | _, _, _, none => .error "fraction-digits"
      match bindType reg root scope t.arg with
      | .unbound => .error
      | .ambiguous => .noClaim "ambiguous"
      | .builtin k =>
        match own? with
        | .ok own => .ok k [own]
        | .error w => .noClaim w
      | .typedef m td sc =>
        match td.one? "type" with
        | none => .noClaim "typedef-without-type"
        | some tt =>
          match chainOf reg fuel m (td :: sc) tt visiting with
          | .ok k ls =>
            match own? with
            | .ok own => .ok k (own :: typedefLayer td :: ls)
            | .error w => .noClaim w
          | .error => .error
          | .noClaim w => .noClaim w

/-- Is `root` part of a schema: a module, or a submodule that a loaded module includes, directly or
through other submodules?  (A submodule nobody includes belongs to no module; the library does not
link its include statements and the property makes no claim about references in it.) -/
def partOfSchema (reg : Registry) (root : Mod) : Bool :=
  !root.isSub ||
  (reg.mods.any fun m => !m.isSub && (withSubmodules reg [m]).any (·.seq == root.seq))

/-- Every include and import statement of the loaded set names a loaded (sub)module. -/
def wellLinked (reg : Registry) : Bool :=
  reg.mods.all fun m =>
    (m.includes.all fun i => (reg.findModule true i).isSome) && (m.imports.all fun i => (reg.findModule false i).isSome)

/-- What the type statement `t` must resolve to. -/
def specResolve (reg : Registry) (fuel : Nat) (root : Mod) (scope : List Stmt) (t : Stmt) (visiting : List Key) : SRes :=
  if !wellLinked reg then .noClaim "unresolved-include-or-import"
  else if !partOfSchema reg root then .noClaim "submodule-nobody-includes"
  else finish (chainOf reg fuel root scope t visiting)

mutual
def countTypeStmts : Stmt → Nat
  | .mk kw _ _ _ _ _ subs => (if kw == "type" then 1 else 0) + countTypeStmtsL subs
def countTypeStmtsL : List Stmt → Nat
  | [] => 0
  | s :: rest => countTypeStmts s + countTypeStmtsL rest
end

/-- More than the longest acyclic derivation can need. -/
def specFuel (reg : Registry) : Nat := (reg.mods.map fun m => countTypeStmts m.stmt).sum + 2

/-! ## Canonical rendering of the projection -/

def insertSorted (x : String) : List String → List String
  | [] => [x]
  | y :: ys => if strLt x y then x :: y :: ys else if x == y then y :: ys else y :: insertSorted x ys

/-- Sorted, without repetitions. -/
def asSet (l : List String) : List String := l.foldl (fun acc x => insertSorted x acc) []

open Goyang.Proto in
def dumpTab : Option (List (String × Int)) → String
  | none => "-"
  | some tab => "[" ++ ",".intercalate (asSet (tab.map fun (n, v) => encStr n ++ ":" ++ toString v)) ++ "]"

open Goyang.Proto in
mutual
/-- One-line rendering; the Go side prints the same projection of `Entry.Type`
(harness/lib/typedump.go, `SpecDump`). -/
def SType.dump : SType → String
  | ⟨k, u, d, f, pt, e, b, p, m⟩ =>
    "{k=" ++ k ++ ";u=" ++ encStr u ++ ";d=" ++ (match d with | some s => encStr s | none => "~") ++
    ";fd=" ++ toString f ++ ";pat=[" ++ ",".intercalate (asSet (pt.map encStr)) ++ "];enum=" ++ dumpTab e ++
    ";bit=" ++ dumpTab b ++ ";path=" ++ encStr p ++ ";mem=[" ++ ",".intercalate (asSet (dumpL m)) ++ "]}"
def dumpL : List SType → List String
  | [] => []
  | a :: rest => a.dump :: dumpL rest
end

end Goyang.Spec.Types
