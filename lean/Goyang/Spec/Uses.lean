import Goyang.Model.Find
/-
C06, independent reading: what a `uses` statement denotes.

* `bindGrouping` — the lexical binding of a grouping name at a `uses` statement (RFC 7950 5.5,
  7.12, 7.13, 5.1).  Written in two separate layers, neither of which is a search that threads
  state through a recursion over names:
    - *where to look*: for a name without prefix (or with the module's own prefix) the enclosing
      statements from the `uses` outwards, and at module level "the whole module" — the
      (sub)module itself, its included submodules (transitively), and for a submodule the module
      it belongs to with that module's submodules — as a list `searchOrder` that does not depend
      on the name; for a foreign prefix the module imported under that prefix (its whole module);
    - *what is found*: the first place of that list that directly declares a grouping of the name.
* `denoteGrouping` — the data nodes of a grouping, computed in the grouping's *defining* scope
  (its own root module, its own ancestors).
* `CopyOf` — equality of two subtrees in names, kinds, types, defaults, constraints and nesting.

Core Lean only.
-/
namespace Goyang.Spec.Uses
open Goyang.Model

/-! ### names -/

/-- The reference `name` is written with prefix `p`: it starts with `p:`. -/
def carries (p name : String) : Bool := (p.toList ++ [':']).isPrefixOf name.toList

/-- What follows the prefix `p:`. -/
def afterPrefix (p name : String) : String := String.ofList (name.toList.drop (p.length + 1))

/-- A name without any prefix. -/
def isBare (name : String) : Bool := !name.toList.contains ':'

/-- The reference with the using (sub)module's own prefix removed (`p:g` and `g` mean the same
inside the module whose prefix is `p`). -/
def localName (root : Mod) (name : String) : String :=
  let p := root.getPrefix
  if p != "" && carries p name then afterPrefix p name else name

/-! ### where to look -/

def isModuleStmt (s : Stmt) : Bool := s.kw == "module" || s.kw == "submodule"

/-- The grouping of that name that statement `s` directly declares (the first, should the text
declare two). -/
def declares (s : Stmt) (name : String) : Option Stmt := (s.all "grouping").find? (·.arg == name)

/-- Where "the whole module" continues from (sub)module `m`: the submodules it includes (only a
(sub)module that some loaded module reaches has its include statements linked: `linked`), then,
for a submodule, the module it belongs to. -/
def next (reg : Registry) (linked : List Nat) (m : Mod) : List Mod :=
  if isModuleStmt m.stmt then
    (if linked.contains m.seq then m.includes.filterMap (reg.findModule true) else []) ++
    (if m.isSub then (m.belongsTo?.bind reg.getModule).toList else [])
  else []

/-- Visit the not yet seen ones of `ts` in order, each with everything below it (`visitOne`). -/
def visitList (visitOne : Mod → List String → List Mod × List String) :
    List Mod → List String → List Mod × List String
  | [], seen => ([], seen)
  | t :: ts, seen =>
    if seen.contains t.name then visitList visitOne ts seen
    else
      let r := visitOne t (seen ++ [t.name])
      let r' := visitList visitOne ts r.2
      (r.1 ++ r'.1, r'.2)

/-- Depth-first order over `next`: `m`, then what lies below it; a (sub)module is entered from
another one only when its name is not yet marked, and is marked then (`seen`: the names marked so
far; returned with the new marks); `d` bounds the depth.  The starting (sub)module itself is not
marked, so the list can name it a second time when the walk comes back to it — which cannot
change what is found *first* in the list. -/
def visit (reg : Registry) (linked : List Nat) : Nat → Mod → List String → List Mod × List String
  | 0, m, seen => ([m], seen)
  | d + 1, m, seen =>
    let r := visitList (visit reg linked d) (next reg linked m) seen
    (m :: r.1, r.2)

/-- The files of "the whole module" as seen from `m`, in search order (the depth bound is the
number of loaded (sub)modules: every step down marks a name that was not marked before). -/
def searchOrder (reg : Registry) (linked : List Nat) (m : Mod) : List Mod :=
  (visit reg linked (reg.mods.length + 1) m []).1

/-- Binding of an unprefixed name at the top level of the whole module of `m`. The result names
the grouping, the (sub)module that declares it, and its ancestor chain there. -/
def bindTop (reg : Registry) (linked : List Nat) (m : Mod) (name : String) : Option GroupingRef :=
  (searchOrder reg linked m).findSome? fun s => (declares s.stmt name).map fun g => (g, s, [s.stmt])

/-- Binding among the enclosing statements `inner` of the `uses` (nearest first) inside `root`:
the nearest one that directly declares the name. -/
def bindLexical (root : Mod) : List Stmt → String → Option GroupingRef
  | [], _ => none
  | n :: up, name =>
    match declares n name with
    | some g => some (g, root, n :: up ++ [root.stmt])
    | none => bindLexical root up name

/-- **The grouping a `uses name` statement denotes**, written in (sub)module `root` below the
statements `inner` (nearest first, the (sub)module statement excluded).
Unprefixed or own prefix: the nearest enclosing statement that declares the name, else the whole
module.  Foreign prefix `p:g`: the whole module of the module imported under `p` (import
statements are followed only when linked). -/
def bindGrouping (reg : Registry) (linked : List Nat) (root : Mod) (inner : List Stmt) (name : String) :
    Option GroupingRef :=
  let nm := localName root name
  if isBare nm then
    match bindLexical root inner nm with
    | some r => some r
    | none => bindTop reg linked root nm
  else if isModuleStmt root.stmt && linked.contains root.seq then
    root.imports.findSome? fun i =>
      let p := (i.argOf? "prefix").getD ""
      if carries p nm && isBare (afterPrefix p nm) then
        (reg.findModule false i).bind fun x => bindTop reg linked x (afterPrefix p nm)
      else none
  else none

/-- The import statements of `root` under whose prefix the reference `nm` is written. -/
def importsFor (root : Mod) (nm : String) : List Stmt :=
  root.imports.filter fun i =>
    let p := (i.argOf? "prefix").getD ""
    carries p nm && isBare (afterPrefix p nm)

/-! ### reachability, for reading `searchOrder` -/

/-- One step of "belongs to the same module as seen from": an include statement, or belongs-to. -/
inductive Step (reg : Registry) (linked : List Nat) : Mod → Mod → Prop
  | incl {m t : Mod} {i : Stmt} : isModuleStmt m.stmt = true → linked.contains m.seq = true →
      i ∈ m.includes → reg.findModule true i = some t → Step reg linked m t
  | owner {m t : Mod} : isModuleStmt m.stmt = true → m.isSub = true →
      m.belongsTo?.bind reg.getModule = some t → Step reg linked m t

/-- Reflexive-transitive closure of `Step`. -/
inductive Reach (reg : Registry) (linked : List Nat) : Mod → Mod → Prop
  | refl (m : Mod) : Reach reg linked m m
  | tail {a b c : Mod} : Reach reg linked a b → Step reg linked b c → Reach reg linked a c

/-! ### what a grouping denotes, and what a copy is -/

/-- **The data nodes of a grouping**, computed where the grouping is defined: `r` names the
grouping statement, its own root (sub)module and its own ancestor chain; nothing of the using
statement's context enters. (`visiting`, `st`: the conversion state, see `Model.toEntry`.) -/
def denoteGrouping (env : Env) (fuel : Nat) (r : GroupingRef) (visiting : List NodeId) (st : TState) : List Entry :=
  (toEntry env fuel r.2.1 r.2.2 r.1 visiting st).1.dir

/-- The data of one node the property speaks about: name, kind, type, default, constraints
(list attributes, mandatory, config, key, units), and whether it is an rpc/action. -/
def SameData (a b : EData) : Prop :=
  a.name = b.name ∧ a.kind = b.kind ∧ a.hasDir = b.hasDir ∧ a.type = b.type ∧ a.default = b.default ∧
  a.listAttr = b.listAttr ∧ a.mandatory = b.mandatory ∧ a.config = b.config ∧ a.key = b.key ∧
  a.units = b.units ∧ a.isRpc = b.isRpc ∧ a.description = b.description

mutual
/-- `a` is a copy of `b`: same data at every node, same nesting (children in the same order,
rpc input and output included). -/
def CopyOf : Entry → Entry → Prop
  | .mk d c i o, .mk d' c' i' o' => SameData d d' ∧ CopyOfL c c' ∧ CopyOfL i i' ∧ CopyOfL o o'
def CopyOfL : List Entry → List Entry → Prop
  | [], [] => True
  | a :: as, b :: bs => CopyOf a b ∧ CopyOfL as bs
  | [], _ :: _ => False
  | _ :: _, [] => False
end

/-! ### extras (Entry.Extra / Entry.Exts)

The resolver model carries no `Extra` / `Exts` (they play no part in the schema tree).  What the
property says about them — a copy has the grouping node's own values, plus what the `uses`
statement adds, and nothing of any other use — is stated over a small model of its own: a node
carries the (keyword, argument) pairs of `Entry.Extra` in order of arrival and its extension
statements; `usesEntry` and `mergeKids` are the two places of the Go code that touch them
(`ToEntry`'s uses case: `ToEntry(g).dup()` then `addExtraKeywordsToLeafEntry` and the deferred
`Exts` append; `merge`: `v.Exts = append(v.Exts, oe.Exts...)`, `v.Extra[k] = append(v.Extra[k],
oe.Extra[k]...)` for every direct child `v`).  The tie to the Go code is the runner's Go-side
oracle, which checks exactly this law (and that no backing array is shared); drv_res does not
compute it. -/

structure Extras where
  extra : List (String × String) := []
  exts : List (String × String) := []
  deriving Repr, DecidableEq, Inhabited

namespace Extras
/-- `Entry.Extra[k]`: the arguments recorded under keyword `k`, in order. -/
def vals (x : Extras) (k : String) : List String := (x.extra.filter (·.1 == k)).map (·.2)
/-- What Go's per-key `append` and the `Exts` append do, for all keys at once. -/
def append (a b : Extras) : Extras := { extra := a.extra ++ b.extra, exts := a.exts ++ b.exts }
end Extras

/-- A node with its extras and its children. -/
inductive XEntry where
  | mk (name : String) (x : Extras) (kids : List XEntry)
  deriving Repr, Inhabited

namespace XEntry
def name : XEntry → String | .mk n _ _ => n
def x : XEntry → Extras | .mk _ x _ => x
def kids : XEntry → List XEntry | .mk _ _ k => k
end XEntry

/-- Go, `ToEntry` of `uses` with extras `u` of a grouping whose own entry is `g`: a copy of `g`
whose root carries `g`'s own extras followed by those of the uses statement. -/
def usesEntry (g : XEntry) (u : Extras) : XEntry := .mk g.name (g.x.append u) g.kids

/-- Go, `merge`: every direct child of `oe` is copied and gets `oe`'s extras appended; whatever
lies below a child is copied as it is. -/
def mergeKids (oe : XEntry) : List XEntry := oe.kids.map fun v => .mk v.name (v.x.append oe.x) v.kids

/-- What one `uses` (with extras `u`) of the grouping with entry `g` adds to the using node. -/
def usesInstance (g : XEntry) (u : Extras) : List XEntry := mergeKids (usesEntry g u)

end Goyang.Spec.Uses
