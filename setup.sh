#!/bin/sh
# MANIFEST.setup_cmd: build the Lean project (theorems + driver executables) and the Go harness
# from files on disk only.  Offline.
set -e
cd "$(dirname "$0")"
export GOFLAGS=-mod=mod GOPROXY=off GOSUMDB=off GOTOOLCHAIN=local
exec ./check setup
