#!/usr/bin/env python3
"""Regenerate MANIFEST.json's checks / not_applicable lists from checks/*.json (the per-property
configuration each carries its own manifest block)."""
import json, os
ROOT = os.path.dirname(os.path.abspath(__file__))
man = json.load(open(os.path.join(ROOT, "MANIFEST.json")))
props = [json.loads(l) for l in open(os.path.join(ROOT, "properties.jsonl"))]
checks, claimed = [], set()
engines = {e["name"]: e for e in man["engines"]}
for e in engines.values(): e["serves_properties"] = []
# only properties the coordinator has verified (./check <id> quick exits 0 on the unchanged tree) are claimed
verified = set(open(os.path.join(ROOT, "checks", "CLAIMED")).read().split())
for f in sorted(os.listdir(os.path.join(ROOT, "checks"))):
    if not f.endswith(".json") or f[:-5] not in verified:
        continue
    cfg = json.load(open(os.path.join(ROOT, "checks", f)))
    m = cfg.get("manifest")
    if not m or not cfg.get("claimed", True):
        continue
    pid = cfg["property"]
    claimed.add(pid)
    checks.append({
        "property_id": pid,
        "quick_cmd": f"./check {pid} quick",
        "thorough_cmd": f"./check {pid} thorough",
        "evidence_file": f"evidence/{pid}.json",
        "replay_cmd_template": "./check replay {path}",
        "engine": "lean-proofs+corr-harness",
        "level_claimed": {"category": cfg.get("level", "proof"), "text": m["level_text"], "design_ref": m.get("design_ref", "")},
        "level_note": m["level_note"],
        "technique": m["technique"],
    })
    for e in engines.values(): e["serves_properties"].append(pid)
man["checks"] = checks
old = {n["property_id"]: n["reason"] for n in man.get("not_applicable", [])}
na_file = os.path.join(ROOT, "checks", "not_applicable.reasons")
man["not_applicable"] = [{"property_id": p["id"], "reason": old.get(p["id"], "check under construction; not yet claimed")}
                         for p in props if p["id"] not in claimed]
json.dump(man, open(os.path.join(ROOT, "MANIFEST.json"), "w"), indent=1)
print("claimed:", sorted(claimed))
