#!/usr/bin/env python3
"""Regenerates the per-property status table of DESIGN.md (between the STATUS markers) from
checks/*.json, the theorem files and the evidence files."""
import json, os, re, glob
ROOT = os.path.dirname(os.path.abspath(__file__))
def theorems(pf):
    p = os.path.join(ROOT, "lean", pf)
    if not os.path.exists(p): return []
    return re.findall(r"^\s*theorem\s+([A-Za-z_][\w.']*)", open(p).read(), re.M)
rows = []
for f in sorted(glob.glob(os.path.join(ROOT, "checks", "C*.json"))):
    c = json.load(open(f)); pid = c["property"]
    ths = []
    for pf in c.get("props_files", []): ths += theorems(pf)
    ev = {}
    ep = os.path.join(ROOT, "evidence", pid + ".json")
    if os.path.exists(ep): ev = json.load(open(ep)).get("coverage", {})
    runners = [c["runner"]] if c.get("runner") else []
    runners += [r["runner"] for r in c.get("runners", [])]
    names = ", ".join("`%s`" % t for t in ths[:14]) + (" … (+%d)" % (len(ths) - 14) if len(ths) > 14 else "")
    rows.append("| %s | %d | %s | %s | %s / %s |" % (pid, len(ths), names, ", ".join(runners),
                ev.get("evaluations", "?"), ev.get("distinct_nontrivial", "?")))
table = ("| id | theorems | names (first 14) | runner(s) | quick: evaluations / distinct non-trivial |\n"
         "|----|----------|------------------|-----------|-------------------------------------------|\n" + "\n".join(rows) + "\n")
p = os.path.join(ROOT, "DESIGN.md"); s = open(p).read()
a, b = "<!-- STATUS:BEGIN -->", "<!-- STATUS:END -->"
if a in s:
    s = s[:s.index(a) + len(a)] + "\n" + table + s[s.index(b):]
    open(p, "w").write(s)
print(table[:600])
